(* Panic_lemmas.v — C14: nothing that comes through the decoders can reach a panic site.
   [EPanic s] (model/Ledger.v) marks the places where the Go code would panic instead of
   returning an error. The only site reachable from the entry points of model/Handlers.v is
   PsNoOutputs (utxos_registry.go:99, Outputs()[0]); the decoders refuse transactions without
   outputs, so "every transaction the node holds has an output" is an invariant, and under it
   no operation returns EPanic. *)
From Coq Require Import Lia ZArith NArith.
From RV Require Import model.Base model.Json model.Ledger model.Registry model.Chain model.Sync
     model.Pool model.Reach model.WireDec model.Handlers.
From RV Require Import proofs.Ledger_fee proofs.Ledger_update proofs.Chain_verify
     proofs.Wire_lemmas proofs.Paging_lemmas proofs.Pool_lemmas proofs.Sync_lemmas
     proofs.Fetch_lemmas.

(* ------------------------------------------------------------------ *)
(* 1. the invariant                                                    *)
(* ------------------------------------------------------------------ *)
Definition tx_ok (t : tx) : Prop := outs t <> [].
Definition block_ok (b : block) : Prop := Forall tx_ok (txs b).
Definition node_ok (n : node) : Prop :=
  Forall tx_ok (elems (n_pool n)) /\ Forall block_ok (chain (n_c n)).

Lemma node_empty_ok : node_ok node_empty.
Proof. split; constructor. Qed.

(* ---- list helpers ---- *)
Lemma last_block_In (c : list block) (b : block) : last_block c = Some b -> In b c.
Proof.
  unfold last_block. intros Hl. apply in_rev.
  destruct (rev c) as [|x r]; [discriminate|]. injection Hl as <-. left. reflexivity.
Qed.

Lemma last_block_app (c : list block) (b : block) : last_block (c ++ [b]) = Some b.
Proof. unfold last_block. rewrite rev_app_distr. reflexivity. Qed.

Lemma last_block_ok (c : list block) (b : block) :
  Forall block_ok c -> last_block c = Some b -> block_ok b.
Proof.
  intros Hc Hl. apply last_block_In in Hl. rewrite Forall_forall in Hc. apply Hc. exact Hl.
Qed.

Lemma last_block_txs_ok (c : list block) : Forall block_ok c -> Forall tx_ok (last_block_txs c).
Proof.
  intros Hc. unfold last_block_txs. destruct (last_block c) as [b|] eqn:El; [|constructor].
  apply (last_block_ok c b Hc El).
Qed.

Lemma removelast_ok (c : list block) : Forall block_ok c -> Forall block_ok (removelast c).
Proof.
  intros Hc. rewrite Forall_forall in *. intros b Hb. apply Hc.
  destruct c as [|x r]; [destruct Hb|].
  assert (Hne : x :: r <> []) by discriminate.
  rewrite (app_removelast_last x Hne). apply in_or_app. left. exact Hb.
Qed.

Lemma firstn_ok {A} (P : A -> Prop) (k : nat) (l : list A) : Forall P l -> Forall P (firstn k l).
Proof.
  intros Hl. rewrite Forall_forall in *. intros x Hx. apply Hl.
  rewrite <- (firstn_skipn k l). apply in_or_app. left. exact Hx.
Qed.

Lemma skipn_ok {A} (P : A -> Prop) (k : nat) (l : list A) : Forall P l -> Forall P (skipn k l).
Proof.
  intros Hl. rewrite Forall_forall in *. intros x Hx. apply Hl.
  rewrite <- (firstn_skipn k l). apply in_or_app. right. exact Hx.
Qed.

(* [update_utxos] on transactions that all have an output *)
Lemma update_ok_no_panic (reg : ureg) (l : list tx) (ts : Z) (s : panic_site) :
  Forall tx_ok l -> update_utxos reg l ts <> Err (EPanic s).
Proof.
  intros Hl. apply update_utxos_no_panic. rewrite Forall_forall in Hl. exact Hl.
Qed.

(* ------------------------------------------------------------------ *)
(* 2. the decoders establish it                                        *)
(* ------------------------------------------------------------------ *)
Section Decoded.
  Variable on_curve : string -> bool.
  Variable Hb : list N -> list N.

  Lemma decoded_tx_ok (j : json) (t : tx) : unmarshal_tx on_curve Hb j = Ok t -> tx_ok t.
  Proof. apply unmarshal_tx_nonempty. Qed.

  Lemma decoded_block_ok (j : json) (b : block) :
    unmarshal_block on_curve Hb j = Ok b -> block_ok b.
  Proof. apply unmarshal_block_txs_nonempty. Qed.

  Lemma decoded_request_ok (j : json) (t : tx) (g : string) :
    unmarshal_request on_curve Hb j = Ok (Some t, g) -> tx_ok t.
  Proof.
    unfold unmarshal_request. destruct j; try discriminate. intros Hd.
    bind_inv Hd as o E Hd0. bind_inv Hd0 as g0 E0 Hd1. injection Hd1 as -> _.
    unfold dec_field in E.
    apply (dec_seq_inv (fun o => match o with Some t => tx_ok t | None => True end)
                       (fun _ => dec_ptr (unmarshal_tx on_curve Hb))
                       (get_fields "Transaction" l)) with (init := None) (v := Some t);
      [|exact I|exact E].
    intros cur j v _ Hp. unfold dec_ptr in Hp.
    destruct j; try (injection Hp as <-; exact I);
      match type of Hp with
      | match ?x with _ => _ end = _ => destruct x as [a|e] eqn:Eu; [|discriminate]
      end; injection Hp as <-; apply (decoded_tx_ok _ _ Eu).
  Qed.

  Lemma all_blocks_spec (l : list (option block)) (bs : list block) :
    all_blocks l = Some bs -> l = map Some bs.
  Proof.
    revert bs. induction l as [|[b|] r IH]; cbn [all_blocks]; intros bs Ha.
    - injection Ha as <-. reflexivity.
    - destruct (all_blocks r) as [x|] eqn:E; [|discriminate]. injection Ha as <-.
      cbn [map]. f_equal. apply IH. reflexivity.
    - discriminate.
  Qed.

  Lemma all_blocks_null (l : list (option block)) : In None l -> all_blocks l = None.
  Proof.
    induction l as [|[b|] r IH]; cbn [all_blocks]; intros Hin.
    - destruct Hin.
    - destruct Hin as [Hin|Hin]; [discriminate|]. rewrite (IH Hin). reflexivity.
    - reflexivity.
  Qed.

  Lemma decoded_blocks_ok (j : json) (l : list block) :
    response_of_answer on_curve Hb j = RBlocks l -> Forall block_ok l.
  Proof.
    unfold response_of_answer.
    destruct (unmarshal_blocks on_curve Hb j) as [ol|e] eqn:Eu; [|discriminate].
    destruct (all_blocks ol) as [bs|] eqn:Ea; [|discriminate].
    intros Hr. injection Hr as <-. apply all_blocks_spec in Ea. subst ol.
    unfold unmarshal_blocks in Eu. destruct j; try discriminate.
    - destruct bs; [constructor|discriminate].
    - assert (Hall : Forall (fun o => match o with Some b => block_ok b | None => True end)
                            (map Some bs)).
      { eapply (map_res_ok (dec_ptr (unmarshal_block on_curve Hb))); [|exact Eu].
        intros a [b|] Hp; [|exact I].
        unfold dec_ptr in Hp.
        destruct a; try discriminate;
          match type of Hp with
          | match ?x with _ => _ end = _ => destruct x as [b0|e] eqn:E0; [|discriminate]
          end; injection Hp as <-; apply (decoded_block_ok _ _ E0). }
      clear Eu. induction bs as [|b r IH]; [constructor|].
      cbn [map] in Hall. inversion Hall; subst. constructor; [assumption | apply IH; assumption].
  Qed.

  (* an answer that does not decode, or holds a null block, is a failed answer *)
  Definition bad_answer (j : json) : Prop :=
    (exists e, unmarshal_blocks on_curve Hb j = Err e) \/
    (exists l, unmarshal_blocks on_curve Hb j = Ok l /\ In None l).

  Lemma bad_answer_fails (j : json) :
    bad_answer j -> response_of_answer on_curve Hb j = RFail EDecode.
  Proof.
    unfold response_of_answer. intros [[e He]|(l & Hl & Hin)].
    - rewrite He. reflexivity.
    - rewrite Hl, (all_blocks_null l Hin). reflexivity.
  Qed.

  Lemma response_cases (j : json) :
    response_of_answer on_curve Hb j = RFail EDecode \/
    exists l, response_of_answer on_curve Hb j = RBlocks l /\ Forall block_ok l.
  Proof.
    destruct (response_of_answer on_curve Hb j) as [e|l] eqn:Er.
    - left. unfold response_of_answer in Er.
      destruct (unmarshal_blocks on_curve Hb j) as [ol|e0]; [|injection Er as <-; reflexivity].
      destruct (all_blocks ol); [discriminate | injection Er as <-; reflexivity].
    - right. exists l. split; [reflexivity | exact (decoded_blocks_ok j l Er)].
  Qed.
End Decoded.

(* ------------------------------------------------------------------ *)
(* 3. no operation panics on an ok node with ok inputs                 *)
(* ------------------------------------------------------------------ *)
Section Ops.
  Variable value_fn : N -> bool -> Z -> N.
  Variable addr_of : string -> string.
  Variable sig_ok : input -> bool.
  Variable H : block -> hash.
  Variable gen_id : slice input -> slice output -> Z -> string.
  Variable Se : settings.
  Variable validator : string.

  Notation calc_fee := (Ledger.calc_fee value_fn addr_of).
  Notation pool_add := (Pool.pool_add value_fn addr_of sig_ok Se).
  Notation validate := (Pool.validate value_fn addr_of sig_ok H gen_id Se validator).
  Notation verify := (Chain.verify value_fn addr_of sig_ok H Se).
  Notation verify_loop := (Chain.verify_loop value_fn addr_of sig_ok H Se).
  Notation verify_step := (Chain.verify_step value_fn addr_of sig_ok H Se).
  Notation update := (Sync.update value_fn addr_of sig_ok H Se).
  Notation candidates := (Sync.candidates value_fn addr_of sig_ok H Se).
  Notation step := (Reach.step value_fn addr_of sig_ok H gen_id Se validator).

  (* ---- transaction submission ---- *)
  Lemma pool_add_no_panic (n : node) (t : tx) (s : panic_site) :
    node_ok n -> tx_ok t -> pool_add n t <> Err (EPanic s).
  Proof.
    intros [Hp Hc] Ht. unfold Pool.pool_add. cbv zeta.
    destruct (last_block_ts (chain (n_c n)) =? 0)%Z; [discriminate|].
    destruct (last_block_ts (chain (n_c n)) + s_interval Se <? t_ts t)%Z; [discriminate|].
    destruct (t_ts t <? last_block_ts (chain (n_c n)))%Z; [discriminate|].
    destruct (mem_str (t_id t) (pool_ids n)); [discriminate|].
    destruct (negb (verify_sigs sig_ok t)); [discriminate|].
    destruct (update_utxos (ur (n_c n)) (last_block_txs (chain (n_c n)))
                           (last_block_ts (chain (n_c n)))) as [u1|e1] eqn:E1.
    2:{ intros Heq. injection Heq as ->.
        exact (update_ok_no_panic _ _ _ s (last_block_txs_ok _ Hc) E1). }
    destruct (update_utxos u1 (elems (n_pool n))
                           (last_block_ts (chain (n_c n)) + s_interval Se)) as [u2|e2] eqn:E2.
    2:{ intros Heq. injection Heq as ->. exact (update_ok_no_panic _ _ _ s Hp E2). }
    destruct (calc_fee (s_fee Se) u2 t (last_block_ts (chain (n_c n)) + s_interval Se))
      as [f|e3] eqn:E3.
    2:{ intros Heq. injection Heq as ->. exact (calc_fee_err_no_state _ _ _ _ _ _ s E3). }
    destruct (update_utxos u2 [t] (last_block_ts (chain (n_c n)) + s_interval Se))
      as [u3|e4] eqn:E4; [discriminate|].
    intros Heq. injection Heq as ->.
    refine (update_ok_no_panic _ _ _ s _ E4). constructor; [exact Ht | constructor].
  Qed.

  Lemma pool_add_preserves_ok (n : node) (t : tx) (n' : node) :
    node_ok n -> tx_ok t -> pool_add n t = Ok n' -> node_ok n'.
  Proof.
    intros [Hp Hc] Ht Ha. rewrite (pool_add_node _ _ _ _ _ _ _ Ha).
    split; cbn [n_pool n_c]; [|exact Hc].
    unfold sl_app. cbn [elems]. apply Forall_app. split; [exact Hp|].
    constructor; [exact Ht | constructor].
  Qed.

  (* ---- block production ---- *)
  Lemma validate_no_panic (n : node) (ts : Z) (perm : list nat) (s : panic_site) :
    node_ok n -> snd (validate n ts perm) <> Refused (EPanic s).
  Proof.
    intros [Hp Hc]. destruct (validate n ts perm) as [n' o] eqn:Ev. cbn [snd].
    intros Ho. subst o.
    destruct (validate_refused_cases _ _ _ _ _ _ _ _ _ _ _ _ Ev) as [[_ [He|[He|He]]]|[He _]];
      [discriminate | discriminate | | discriminate].
    exact (update_ok_no_panic _ _ _ s (last_block_txs_ok _ Hc) He).
  Qed.

  (* the drop log of a produced block never records a panic either: the per-transaction
     CalculateFee / UpdateUtxos calls of transactions_pool.go:96-124 are on pooled transactions *)
  Lemma drop_reason_no_panic (last next ts : Z) (u : ureg) (t : tx) (s : panic_site) :
    tx_ok t ->
    drop_reason value_fn addr_of sig_ok Se last next ts u t <> DFee (EPanic s) /\
    drop_reason value_fn addr_of sig_ok Se last next ts u t <> DUpdate (EPanic s).
  Proof.
    intros Ht. unfold drop_reason.
    destruct (ts <? t_ts t)%Z; [split; discriminate|].
    destruct (t_ts t <? last)%Z; [split; discriminate|].
    destruct (negb (verify_sigs sig_ok t)); [split; discriminate|].
    destruct (calc_fee (s_fee Se) u t ts) as [f|e] eqn:Ef.
    - destruct (update_utxos u [t] next) as [u'|e] eqn:Eu; [split; discriminate|].
      split; [discriminate|]. intros Heq. injection Heq as ->.
      refine (update_ok_no_panic _ _ _ s _ Eu). constructor; [exact Ht | constructor].
    - split; [|discriminate]. intros Heq. injection Heq as ->.
      exact (calc_fee_err_no_state _ _ _ _ _ _ s Ef).
  Qed.

  Lemma greedy_log_In (last next ts : Z) (l : list tx) : forall (u : ureg) (id : string) (d : drop),
    In (id, d) (greedy_log value_fn addr_of sig_ok Se last next ts l u) ->
    exists t u', In t l /\ d = drop_reason value_fn addr_of sig_ok Se last next ts u' t.
  Proof.
    induction l as [|t r IH]; intros u id d Hin; cbn [greedy_log] in Hin; [destruct Hin|].
    destruct (keeps value_fn addr_of sig_ok Se last next ts u t) as [[f u']|].
    - destruct (IH _ _ _ Hin) as (t0 & u0 & Ht0 & Hd). exists t0, u0. split; [right; exact Ht0 | exact Hd].
    - destruct Hin as [Hin|Hin].
      + injection Hin as _ <-. exists t, u. split; [left; reflexivity | reflexivity].
      + destruct (IH _ _ _ Hin) as (t0 & u0 & Ht0 & Hd). exists t0, u0.
        split; [right; exact Ht0 | exact Hd].
  Qed.

  Lemma validate_drops_no_panic (n : node) (ts : Z) (perm : list nat) (dropped : list (string * drop))
        (id : string) (s : panic_site) :
    node_ok n -> snd (validate n ts perm) = Produced dropped ->
    ~ In (id, DFee (EPanic s)) dropped /\ ~ In (id, DUpdate (EPanic s)) dropped.
  Proof.
    intros [Hp Hc]. destruct (validate n ts perm) as [n' o] eqn:Ev. cbn [snd]. intros ->.
    pose proof (validate_produced _ _ _ _ _ _ _ _ _ _ _ _ Ev) as Hv. cbv zeta in Hv.
    destruct Hv as (kept & reward & u0 & _ & _ & _ & Hd & _). subst dropped.
    assert (Hany : forall d, In (id, d) (greedy_log value_fn addr_of sig_ok Se
                     (last_block_ts (chain (n_c n)))
                     (last_block_ts (chain (n_c n)) + s_interval Se) ts
                     (permute perm (elems (n_pool n))) u0) ->
                   d <> DFee (EPanic s) /\ d <> DUpdate (EPanic s)).
    { intros d Hin. destruct (greedy_log_In _ _ _ _ _ _ _ Hin) as (t & u' & Ht & ->).
      apply drop_reason_no_panic. apply permute_incl in Ht.
      rewrite Forall_forall in Hp. apply Hp. exact Ht. }
    split; intros Hin; destruct (Hany _ Hin) as [A B]; [apply A | apply B]; reflexivity.
  Qed.

  Lemma reward_tx_ok (y : bool) (ts : Z) (v : N) : tx_ok (reward_tx gen_id validator y ts v).
  Proof. unfold tx_ok, reward_tx, outs. cbn. discriminate. Qed.

  Lemma validate_preserves_ok (n : node) (ts : Z) (perm : list nat) :
    node_ok n -> node_ok (fst (validate n ts perm)).
  Proof.
    intros Hn. destruct (validate n ts perm) as [n' [d|e]] eqn:Ev; cbn [fst].
    - destruct Hn as [Hp Hc].
      pose proof (validate_produced _ _ _ _ _ _ _ _ _ _ _ _ Ev) as Hv. cbv zeta in Hv.
      destruct Hv as (kept & reward & u0 & _ & _ & _ & _ & Hch & Hpool & Hincl & Htxs & _).
      split.
      + rewrite Hpool. constructor.
      + rewrite Hch. apply Forall_app. split; [exact Hc|]. constructor; [|constructor].
        unfold block_ok. rewrite Htxs. apply Forall_app. split.
        * rewrite Forall_forall in *. intros t Ht. apply Hp. apply Hincl. exact Ht.
        * constructor; [apply reward_tx_ok | constructor].
    - rewrite (validate_refused_id _ _ _ _ _ _ _ _ _ _ _ _ Ev). exact Hn.
  Qed.

  (* ---- verification of a neighbor's answer ---- *)
  Lemma add_block_raw_ok (c : cstate) (b : block) :
    Forall block_ok (chain c) ->
    (forall s, add_block_raw c b <> Err (EPanic s)) /\
    (forall c', add_block_raw c b = Ok c' -> chain c' = chain c ++ [b]).
  Proof.
    intros Hc. unfold add_block_raw.
    destruct (last_block (chain c)) as [l|] eqn:El.
    - unfold apply_block.
      destruct (update_utxos (ur c) (txs l) (b_ts l)) as [u'|e] eqn:Eu.
      + split; [discriminate|]. intros c' Hk. injection Hk as <-. reflexivity.
      + split; [|discriminate]. intros s Heq. injection Heq as ->.
        exact (update_ok_no_panic _ _ _ s (last_block_ok _ _ Hc El) Eu).
    - split; [discriminate|]. intros c' Hk. injection Hk as <-. reflexivity.
  Qed.

  Lemma verify_step_ok (lh : list block) (now : Z) (i : nat) (sh : cstate) (prev : option block)
        (b : block) :
    Forall block_ok (chain sh) ->
    (forall s, verify_step lh now i sh prev b <> Err (EPanic s)) /\
    (forall sh', verify_step lh now i sh prev b = Ok sh' -> chain sh' = chain sh ++ [b]).
  Proof.
    intros Hc. unfold Chain.verify_step. cbv zeta.
    destruct (negb (hash_eqb (b_prev b) match prev with None => zero_hash | Some p => H p end));
      [split; discriminate|].
    match goal with
    | |- (forall s, match ?X with _ => _ end <> _) /\ _ =>
      assert (HX : forall s, X <> Err (EPanic s));
        [|destruct X as [[]|e] eqn:EX]
    end.
    - intros s.
      match goal with |- (if ?c then _ else _) <> _ => destruct c; [|discriminate] end.
      apply verify_block_no_panic.
    - destruct i as [|i'].
      + split; [discriminate|]. intros sh' Hk. injection Hk as <-. reflexivity.
      + apply add_block_raw_ok. exact Hc.
    - split; [|discriminate]. intros s Heq. injection Heq as ->. exact (HX s eq_refl).
  Qed.

  Lemma verify_loop_ok (lh : list block) (now : Z) (l : list block) :
    forall (i : nat) (sh : cstate) (prev : option block),
      Forall block_ok (chain sh) -> Forall block_ok l ->
      (forall s, verify_loop lh now i sh prev l <> Err (EPanic s)) /\
      (forall sh', verify_loop lh now i sh prev l = Ok sh' -> Forall block_ok (chain sh')).
  Proof.
    induction l as [|b r IH]; intros i sh prev Hc Hl; cbn [Chain.verify_loop].
    - split; [discriminate|]. intros sh' Hk. injection Hk as <-. exact Hc.
    - inversion Hl as [|b0 r0 Hb Hr]; subst.
      destruct (verify_step_ok lh now i sh prev b Hc) as [Hnp Hch].
      destruct (verify_step lh now i sh prev b) as [sh1|e] eqn:Es.
      + apply IH; [|exact Hr]. rewrite (Hch sh1 eq_refl). apply Forall_app.
        split; [exact Hc | constructor; [exact Hb | constructor]].
      + split; [|discriminate]. intros s Heq. injection Heq as ->. exact (Hnp s eq_refl).
  Qed.

  (* the end of verify (blockchain.go:358-363): AddBlock(next, nil, nil) *)
  Lemma verify_tail_ok (lh : list block) (now : Z) (sh0 : cstate) (prev : option block)
        (neigh : list block) (s : panic_site) :
    Forall block_ok (chain sh0) -> Forall block_ok neigh ->
    match verify_loop lh now 0 sh0 prev neigh with
    | Err e => Err e
    | Ok sh =>
      match last_block (chain sh) with
      | None => Ok neigh
      | Some l =>
        match add_block H sh (b_ts l + s_interval Se)%Z None [] with
        | Err e => Err e
        | Ok _ => Ok neigh
        end
      end
    end <> Err (EPanic s).
  Proof.
    intros Hc Hn. destruct (verify_loop_ok lh now neigh 0 sh0 prev Hc Hn) as [Hnp Hok].
    destruct (verify_loop lh now 0 sh0 prev neigh) as [sh|e] eqn:El.
    - specialize (Hok sh eq_refl).
      destruct (last_block (chain sh)) as [l|] eqn:Hlb; [|discriminate].
      unfold add_block. rewrite Hlb.
      destruct (b_ts l + s_interval Se <=? b_ts l)%Z; [discriminate|].
      destruct (add_block_raw_ok sh (make_block H sh (b_ts l + s_interval Se) None []) Hok)
        as [Ha _].
      destruct (add_block_raw sh (make_block H sh (b_ts l + s_interval Se) None [])) as [c'|e] eqn:Ea;
        [discriminate|].
      intros Heq. injection Heq as ->. exact (Ha s eq_refl).
    - intros Heq. injection Heq as ->. exact (Hnp s eq_refl).
  Qed.

  Lemma verify_no_panic (host : cstate) (lh neigh old : list block) (now : Z) (s : panic_site) :
    Forall block_ok old -> Forall block_ok neigh ->
    verify host lh neigh old now <> Err (EPanic s).
  Proof.
    intros Ho Hn. unfold Chain.verify.
    destruct old as [|o old'].
    - destruct neigh as [|b [|b' r]]; [discriminate | discriminate |].
      cbv beta iota zeta.
      apply verify_tail_ok; [constructor | exact Hn].
    - destruct neigh as [|b r]; [discriminate|].
      match goal with |- (if ?c then _ else _) <> _ => destruct c; [discriminate|] end.
      cbv beta iota zeta.
      apply verify_tail_ok; [exact Ho | exact Hn].
  Qed.

  (* ---- a sync round ---- *)
  Definition nbs_ok (nbs : list neighbor) : Prop :=
    forall nb, In nb nbs ->
      (forall l, nb_inc nb = RBlocks l -> Forall block_ok l) /\
      (forall l, nb_full nb = RBlocks l -> Forall block_ok l).

  (* every candidate chain of the round is made of host blocks and answered blocks *)
  Lemma candidates_ok (st : cstate) (now : Z) (nbs : list neighbor) (t : string) (c : list block) :
    Forall block_ok (chain st) -> nbs_ok nbs ->
    In (t, c) (candidates st now nbs) -> Forall block_ok c.
  Proof.
    intros Hc Hn Hin.
    destruct (candidates_verified _ _ _ _ _ _ _ _ _ _ Hin)
      as [(_ & -> & _)|(nb & Hnb & _ & [Hi|Hf])]; [exact Hc | |].
    - destruct Hi as (l & v & Hinc & _ & Hv & ->).
      apply verify_returns_input in Hv. subst v.
      apply Forall_app. split; [apply removelast_ok; exact Hc|].
      apply (proj1 (Hn nb Hnb) l Hinc).
    - destruct Hf as (l & v & Hfull & Hv & ->).
      apply verify_returns_input in Hv. subst v.
      apply (proj2 (Hn nb Hnb) l Hfull).
  Qed.

  Lemma selected_ok (st : cstate) (now : Z) (nbs : list neighbor) (pref : string) (sel : list block) :
    Forall block_ok (chain st) -> nbs_ok nbs ->
    select pref (survivors st (candidates st now nbs)) = Some sel -> Forall block_ok sel.
  Proof.
    intros Hc Hn Hs. apply select_spec in Hs. destruct Hs as [[t Ht] _].
    apply survivors_incl in Ht. exact (candidates_ok _ _ _ _ _ Hc Hn Ht).
  Qed.

  (* the commit loop (blockchain.go:251-258) runs UpdateUtxos on blocks of the selected chain:
     whatever the registry it is run on, the call cannot be the one that panics *)
  Lemma commit_no_panic (st : cstate) (now : Z) (nbs : list neighbor) (pref : string)
        (sel : list block) (b : block) (u : ureg) (s : panic_site) :
    Forall block_ok (chain st) -> nbs_ok nbs ->
    select pref (survivors st (candidates st now nbs)) = Some sel -> In b sel ->
    update_utxos u (txs b) (b_ts b) <> Err (EPanic s).
  Proof.
    intros Hc Hn Hs Hb. apply update_ok_no_panic.
    pose proof (selected_ok _ _ _ _ _ Hc Hn Hs) as Hsel.
    rewrite Forall_forall in Hsel. exact (Hsel b Hb).
  Qed.

  Lemma update_preserves_ok (st : cstate) (now : Z) (nbs : list neighbor) (pref : string) :
    Forall block_ok (chain st) -> nbs_ok nbs ->
    Forall block_ok (chain (fst (update st now nbs pref))).
  Proof.
    intros Hc Hn. destruct (update st now nbs pref) as [st' rep] eqn:Hu. cbn [fst].
    destruct (update_cases _ _ _ _ _ _ _ _ _ _ _ Hu) as [(_ & Hch & _)|(_ & [t Ht] & _)].
    - rewrite Hch. exact Hc.
    - apply survivors_incl in Ht. exact (candidates_ok _ _ _ _ _ Hc Hn Ht).
  Qed.

  (* ---- any operation ---- *)
  Definition op_inputs_ok (o : op) : Prop :=
    match o with
    | OpAdd t => tx_ok t
    | OpUpdate _ nbs _ => nbs_ok nbs
    | _ => True
    end.

  Theorem step_preserves_ok (n : node) (o : op) :
    node_ok n -> op_inputs_ok o -> node_ok (step n o).
  Proof.
    intros Hn Ho. destruct o as [ts perm|t|now nbs pref|poh order]; cbn [Reach.step].
    - apply validate_preserves_ok. exact Hn.
    - destruct (pool_add n t) as [n'|e] eqn:Ea; [|exact Hn].
      exact (pool_add_preserves_ok _ _ _ Hn Ho Ea).
    - destruct Hn as [Hp Hc]. split; cbn [n_pool n_c]; [exact Hp|].
      apply update_preserves_ok; assumption.
    - destruct Hn as [Hp Hc]. split; cbn [n_pool n_c chain]; assumption.
  Qed.

  (* ------------------------------------------------------------------ *)
  (* 4. the entry points                                                 *)
  (* ------------------------------------------------------------------ *)
  Variable on_curve : string -> bool.
  Variable Hb : list N -> list N.

  Notation handle_transaction := (Handlers.handle_transaction value_fn addr_of sig_ok Se on_curve Hb).
  Notation handle_transaction_result :=
    (Handlers.handle_transaction_result value_fn addr_of sig_ok Se on_curve Hb).
  Notation response_of_answer := (Handlers.response_of_answer on_curve Hb).
  Notation neighbor_of_answer := (Handlers.neighbor_of_answer on_curve Hb).
  Notation sync_with := (Handlers.sync_with value_fn addr_of sig_ok H gen_id Se validator on_curve Hb).

  Lemma handle_transaction_spec (n : node) (j : json) :
    handle_transaction n j =
    match handle_transaction_result n j with Ok n' => (n', true) | Err _ => (n, false) end.
  Proof.
    unfold Handlers.handle_transaction, Handlers.handle_transaction_result.
    destruct (unmarshal_request on_curve Hb j) as [[[t|] g]|e]; reflexivity.
  Qed.

  Theorem C14_transaction_endpoint (j : json) (n : node) :
    node_ok n ->
    let '(n', ok) := handle_transaction n j in
    node_ok n' /\ (ok = false -> n' = n) /\
    forall s, handle_transaction_result n j <> Err (EPanic s).
  Proof.
    intros Hn. unfold Handlers.handle_transaction, Handlers.handle_transaction_result.
    destruct (unmarshal_request on_curve Hb j) as [[[t|] g]|e] eqn:Eu.
    - pose proof (decoded_request_ok _ _ _ _ _ Eu) as Ht.
      destruct (pool_add n t) as [n'|e] eqn:Ea.
      + split; [exact (pool_add_preserves_ok _ _ _ Hn Ht Ea)|]. split; [discriminate|].
        discriminate.
      + split; [exact Hn|]. split; [reflexivity|].
        intros s Heq. rewrite Heq in Ea. exact (pool_add_no_panic _ _ s Hn Ht Ea).
    - split; [exact Hn|]. split; [reflexivity | discriminate].
    - split; [exact Hn|]. split; [reflexivity | discriminate].
  Qed.

  Lemma answers_ok (answers : list (string * json * json)) : nbs_ok (map neighbor_of_answer answers).
  Proof.
    intros nb Hnb. apply in_map_iff in Hnb. destruct Hnb as ([[t ji] jf] & <- & _).
    unfold Handlers.neighbor_of_answer. cbn [nb_inc nb_full fst snd].
    split; intros l Hl; exact (decoded_blocks_ok _ _ _ _ Hl).
  Qed.

  Lemma sync_preserves_ok (n : node) (now : Z) (answers : list (string * json * json)) (pref : string) :
    node_ok n -> node_ok (sync_with n now answers pref).
  Proof.
    intros Hn. unfold Handlers.sync_with. apply step_preserves_ok; [exact Hn|].
    cbn [op_inputs_ok]. apply answers_ok.
  Qed.

  Lemma bad_answers_all_fail (answers : list (string * json * json)) :
    (forall t ji jf, In (t, ji, jf) answers ->
                     bad_answer on_curve Hb ji /\ bad_answer on_curve Hb jf) ->
    all_fail (map neighbor_of_answer answers).
  Proof.
    intros Hbad nb Hnb. apply in_map_iff in Hnb. destruct Hnb as ([[t ji] jf] & <- & Hin).
    destruct (Hbad t ji jf Hin) as [Hi Hf].
    unfold Handlers.neighbor_of_answer. cbn [nb_inc nb_full fst snd].
    split; exists EDecode; apply bad_answer_fails; assumption.
  Qed.

  Theorem C14_sync_answer (answers : list (string * json * json)) (n : node) (now : Z) (pref : string) :
    node_ok n ->
    (* the invariant is kept *)
    node_ok (sync_with n now answers pref) /\
    (* no verify call on a decoded answer panics (incremental and full request) *)
    (forall t ji jf l host lh now' s, In (t, ji, jf) answers ->
       response_of_answer ji = RBlocks l \/ response_of_answer jf = RBlocks l ->
       verify host lh l (removelast (chain (n_c n))) now' <> Err (EPanic s) /\
       verify host lh l [] now' <> Err (EPanic s)) /\
    (* no UpdateUtxos call of the commit loop panics *)
    (forall sel b u s,
       select pref (survivors (n_c n) (candidates (n_c n) now (map neighbor_of_answer answers)))
       = Some sel ->
       In b sel -> update_utxos u (txs b) (b_ts b) <> Err (EPanic s)) /\
    (* answers that do not decode or hold a null block leave the node as it was *)
    ((forall t ji jf, In (t, ji, jf) answers ->
                      bad_answer on_curve Hb ji /\ bad_answer on_curve Hb jf) ->
     sync_with n now answers pref = n).
  Proof.
    intros Hn. split; [apply sync_preserves_ok; exact Hn|]. split; [|split].
    - intros t ji jf l host lh now' s _ Hr.
      assert (Hl : Forall block_ok l)
        by (destruct Hr as [Hr|Hr]; exact (decoded_blocks_ok _ _ _ _ Hr)).
      split; apply verify_no_panic; try exact Hl; [|constructor].
      apply removelast_ok. apply Hn.
    - intros sel b u s Hs Hin.
      exact (commit_no_panic _ _ _ _ _ _ _ _ (proj2 Hn) (answers_ok answers) Hs Hin).
    - intros Hbad. unfold Handlers.sync_with. cbn [Reach.step].
      rewrite (C13_failing_neighbors_ignored _ _ _ _ _ _ _ _ _ (bad_answers_all_fail _ Hbad)).
      cbn [fst]. destruct n; reflexivity.
  Qed.

  (* ---- any sequence of operations whose inputs came through the decoders ---- *)
  Inductive wire_op :=
  | WTx (j : json)                                                       (* transaction endpoint *)
  | WSync (now : Z) (answers : list (string * json * json)) (pref : string)   (* sync round *)
  | WTick (ts : Z) (perm : list nat)                                     (* production tick *)
  | WRefresh (poh : string -> option bool) (order : list string).        (* registry refresh *)
  Definition ops_from_wire := list wire_op.

  Definition wire_step (n : node) (w : wire_op) : node :=
    match w with
    | WTx j => fst (handle_transaction n j)
    | WSync now answers pref => sync_with n now answers pref
    | WTick ts perm => step n (OpValidate ts perm)
    | WRefresh poh order => step n (OpRegSync poh order)
    end.
  Definition run_wire (n : node) (ops : ops_from_wire) : node := fold_left wire_step ops n.

  (* "operation [w], run in state [n], reaches panic site [s]": every result the model
     computes on the way is listed, including those the code only logs *)
  Definition wire_panic (n : node) (w : wire_op) (s : panic_site) : Prop :=
    match w with
    | WTx j => handle_transaction_result n j = Err (EPanic s)
    | WSync now answers pref =>
      (exists t ji jf l host lh now',
          In (t, ji, jf) answers /\
          (response_of_answer ji = RBlocks l \/ response_of_answer jf = RBlocks l) /\
          (verify host lh l (removelast (chain (n_c n))) now' = Err (EPanic s) \/
           verify host lh l [] now' = Err (EPanic s))) \/
      (exists sel b u,
          select pref (survivors (n_c n) (candidates (n_c n) now (map neighbor_of_answer answers)))
          = Some sel /\ In b sel /\ update_utxos u (txs b) (b_ts b) = Err (EPanic s))
    | WTick ts perm =>
      snd (validate n ts perm) = Refused (EPanic s) \/
      (exists dropped id,
          snd (validate n ts perm) = Produced dropped /\
          (In (id, DFee (EPanic s)) dropped \/ In (id, DUpdate (EPanic s)) dropped))
    | WRefresh _ _ => False
    end.

  Lemma wire_step_preserves_ok (n : node) (w : wire_op) : node_ok n -> node_ok (wire_step n w).
  Proof.
    intros Hn. destruct w as [j|now answers pref|ts perm|poh order]; cbn [wire_step].
    - pose proof (C14_transaction_endpoint j n Hn) as Ht.
      destruct (handle_transaction n j) as [n' ok]. cbn [fst]. apply Ht.
    - apply sync_preserves_ok. exact Hn.
    - apply step_preserves_ok; [exact Hn | exact I].
    - apply step_preserves_ok; [exact Hn | exact I].
  Qed.

  Lemma run_wire_preserves_ok (ops : ops_from_wire) : forall n, node_ok n -> node_ok (run_wire n ops).
  Proof.
    unfold run_wire. induction ops as [|w r IH]; intros n Hn; cbn [fold_left]; [exact Hn|].
    apply IH. apply wire_step_preserves_ok. exact Hn.
  Qed.

  Lemma wire_no_panic (n : node) (w : wire_op) (s : panic_site) : node_ok n -> ~ wire_panic n w s.
  Proof.
    intros Hn. destruct w as [j|now answers pref|ts perm|poh order]; cbn [wire_panic].
    - pose proof (C14_transaction_endpoint j n Hn) as Ht.
      destruct (handle_transaction n j) as [n' ok]. apply Ht.
    - destruct (C14_sync_answer answers n now pref Hn) as (_ & Hv & Hc & _).
      intros [(t & ji & jf & l & host & lh & now' & Hin & Hr & He)|(sel & b & u & Hs & Hb0 & He)].
      + destruct (Hv t ji jf l host lh now' s Hin Hr) as [A B]. destruct He as [He|He]; contradiction.
      + exact (Hc sel b u s Hs Hb0 He).
    - intros [He|(dropped & id & Hd & Hin)].
      + exact (validate_no_panic n ts perm s Hn He).
      + destruct (validate_drops_no_panic n ts perm dropped id s Hn Hd) as [A B].
        destruct Hin as [Hin|Hin]; contradiction.
    - intros [].
  Qed.

  Theorem C14_then_any_operations (n : node) (ops : ops_from_wire) :
    node_ok n ->
    node_ok (run_wire n ops) /\
    forall pre w post s, ops = pre ++ w :: post -> ~ wire_panic (run_wire n pre) w s.
  Proof.
    intros Hn. split; [apply run_wire_preserves_ok; exact Hn|].
    intros pre w post s _. apply wire_no_panic. apply run_wire_preserves_ok. exact Hn.
  Qed.

  (* in particular from the empty node (a fresh process) *)
  Corollary C14_from_boot (ops : ops_from_wire) :
    node_ok (run_wire node_empty ops) /\
    forall pre w post s, ops = pre ++ w :: post -> ~ wire_panic (run_wire node_empty pre) w s.
  Proof. apply C14_then_any_operations. exact node_empty_ok. Qed.
End Ops.

(* ------------------------------------------------------------------ *)
(* 5. the read-only endpoints                                          *)
(* ------------------------------------------------------------------ *)
(* blocks: the only panic site is the slice expression of blockchain.go:72, unreachable when
   length + BlocksCountLimit fits in a uint64 (proofs/Paging_lemmas.v) *)
Theorem C14_blocks_endpoint (Se : settings) (n : node) (j : json) (s : panic_site) :
  (N.of_nat (length (chain (n_c n))) + s_limit Se <= two64)%N ->
  handle_blocks Se n j <> Ok (Err (EPanic s)).
Proof.
  intros Hsane. unfold handle_blocks.
  destruct (dec_uint u64_bound 0 j) as [h|e]; [|discriminate].
  destruct (blocks_page_no_panic Se (chain (n_c n)) h Hsane) as [p Hp]. rewrite Hp. discriminate.
Qed.

Lemma handle_blocks_null (Se : settings) (n : node) :
  handle_blocks Se n JNull = Ok (blocks_page Se (chain (n_c n)) 0).
Proof. reflexivity. Qed.

Lemma handle_blocks_wrong_type (Se : settings) (n : node) (j : json) :
  (forall z, j <> JNum z) -> j <> JNull -> handle_blocks Se n j = Err DType.
Proof. intros Hz Hn. unfold handle_blocks. destruct j; try reflexivity; congruence. Qed.

Lemma handle_blocks_range (Se : settings) (n : node) (z : Z) :
  (z < 0 \/ u64_bound <= z)%Z -> handle_blocks Se n (JNum z) = Err DRange.
Proof.
  intros Hz. unfold handle_blocks, dec_uint.
  destruct (Z.leb_spec 0 z); destruct (Z.ltb_spec z u64_bound); cbn [andb]; try reflexivity; lia.
Qed.

(* utxos and targets: decode, then a total function; nothing to panic on *)
Lemma handle_utxos_null (n : node) : handle_utxos n JNull = Ok (utxos_of (ur (n_c n)) EmptyString).
Proof. reflexivity. Qed.
Lemma handle_utxos_total (n : node) (j : json) :
  handle_utxos n j = Err DType \/ exists a, handle_utxos n j = Ok (utxos_of (ur (n_c n)) a).
Proof. unfold handle_utxos. destruct j; cbn; eauto. Qed.
Lemma handle_targets_null : handle_targets JNull = Ok [].
Proof. reflexivity. Qed.
Lemma handle_targets_null_elem : handle_targets (JArr [JNull; JStr "a"; JNull]) = Ok [EmptyString; "a"%string; EmptyString].
Proof. reflexivity. Qed.

(* ------------------------------------------------------------------ *)
(* 6. what the decoders refuse                                         *)
(* ------------------------------------------------------------------ *)
Lemma dec_seq_app {A} (dec : A -> json -> res derr A) (l1 l2 : list json) : forall cur,
  dec_seq dec (l1 ++ l2) cur =
  match dec_seq dec l1 cur with Ok c => dec_seq dec l2 c | Err e => Err e end.
Proof.
  induction l1 as [|j r IH]; intros cur; cbn [dec_seq app]; [reflexivity|].
  destruct (dec cur j) as [a|e]; [apply IH | reflexivity].
Qed.

Lemma map_res_null {A} (um : json -> res derr A) (l : list json) : forall l',
  In JNull l -> map_res (dec_ptr um) l = Ok l' -> In None l'.
Proof.
  induction l as [|j r IH]; intros l' Hin Hm; [destruct Hin|].
  cbn [map_res] in Hm.
  destruct (dec_ptr um j) as [b|e] eqn:Ej; [|discriminate].
  destruct (map_res (dec_ptr um) r) as [bs|e] eqn:Er; [|discriminate].
  injection Hm as <-. destruct Hin as [Hin|Hin].
  - subst j. cbn in Ej. injection Ej as <-. left. reflexivity.
  - right. apply IH; [exact Hin | reflexivity].
Qed.

Lemma all_some_null {A} (l : list (option A)) : In None l -> all_some l = Err DNullElem.
Proof.
  induction l as [|[a|] r IH]; intros Hin; cbn [all_some]; [destruct Hin| |reflexivity].
  destruct Hin as [Hin|Hin]; [discriminate|]. rewrite (IH Hin). reflexivity.
Qed.

Lemma no_nulls_null {A} (s : slice (option A)) : In None (elems s) -> no_nulls s = Err DNullElem.
Proof.
  destruct s as [l|]; cbn [elems no_nulls]; intros Hin; [|destruct Hin].
  rewrite (all_some_null l Hin). reflexivity.
Qed.

Lemma all_some_err {A} (l : list (option A)) (e : derr) : all_some l = Err e -> e = DNullElem.
Proof.
  induction l as [|[a|] r IH]; cbn [all_some]; intros He; [discriminate| |congruence].
  destruct (all_some r) as [x|e0]; [discriminate|]. injection He as <-. apply IH. reflexivity.
Qed.

Lemma no_nulls_err {A} (s : slice (option A)) (e : derr) : no_nulls s = Err e -> e = DNullElem.
Proof.
  destruct s as [l|]; cbn [no_nulls]; intros He; [|discriminate].
  destruct (all_some l) as [x|e0] eqn:Ea; [discriminate|]. injection He as <-.
  exact (all_some_err l e0 Ea).
Qed.

Lemma no_nulls_elems {A} (s : slice (option A)) (s' : slice A) :
  no_nulls s = Ok s' -> elems s = [] -> elems s' = [].
Proof.
  destruct s as [l|]; cbn [no_nulls elems]; intros Hn He.
  - subst l. cbn in Hn. injection Hn as <-. reflexivity.
  - injection Hn as <-. reflexivity.
Qed.

(* the value of a slice field is decided by the last occurrence of its key *)
Lemma field_last_null {A} (um : json -> res derr A) (name : string) (fs : list (string * json))
      (pre l : list json) (v : slice (option A)) :
  get_fields name fs = pre ++ [JArr l] -> In JNull l ->
  dec_field (dec_slice (dec_ptr um)) name fs None = Ok v -> In None (elems v).
Proof.
  intros Hg Hin Hd. unfold dec_field in Hd. rewrite Hg, dec_seq_app in Hd.
  destruct (dec_seq (dec_slice (dec_ptr um)) pre None) as [c|e]; [|discriminate].
  cbn [dec_seq dec_slice] in Hd.
  destruct (map_res (dec_ptr um) l) as [x|e] eqn:Em; [|discriminate].
  injection Hd as <-. cbn [elems]. exact (map_res_null um l x Hin Em).
Qed.

Lemma field_last_empty {A} (um : json -> res derr A) (name : string) (fs : list (string * json))
      (v : slice (option A)) :
  get_fields name fs = [] \/
  (exists pre, get_fields name fs = pre ++ [JNull] \/ get_fields name fs = pre ++ [JArr []]) ->
  dec_field (dec_slice (dec_ptr um)) name fs None = Ok v -> elems v = [].
Proof.
  unfold dec_field. intros [Hg|[pre [Hg|Hg]]] Hd; rewrite Hg in Hd.
  - cbn in Hd. injection Hd as <-. reflexivity.
  - rewrite dec_seq_app in Hd.
    destruct (dec_seq (dec_slice (dec_ptr um)) pre None) as [c|e]; [|discriminate].
    cbn in Hd. injection Hd as <-. reflexivity.
  - rewrite dec_seq_app in Hd.
    destruct (dec_seq (dec_slice (dec_ptr um)) pre None) as [c|e]; [|discriminate].
    cbn in Hd. injection Hd as <-. reflexivity.
Qed.

Section Rejected.
  Variable on_curve : string -> bool.
  Variable Hb : list N -> list N.

  (* ---- no outputs ---- *)
  (* go: transaction.go:63: inputs but no output *)
  Theorem C14_no_outputs_rejected (fs : list (string * json)) (id : string)
          (i0 : slice (option input)) (o0 : slice (option output)) (ts : Z)
          (i : slice input) (o : slice output) :
    dec_field dec_str "id" fs EmptyString = Ok id ->
    dec_field (dec_slice (dec_ptr (unmarshal_input on_curve))) "inputs" fs None = Ok i0 ->
    dec_field (dec_slice (dec_ptr unmarshal_output)) "outputs" fs None = Ok o0 ->
    dec_field dec_i64 "timestamp" fs 0%Z = Ok ts ->
    no_nulls i0 = Ok i -> no_nulls o0 = Ok o ->
    elems o = [] ->
    (* whatever the id says, the transaction is refused *)
    (exists e, unmarshal_tx on_curve Hb (JObj fs) = Err e) /\
    (* and with the right id the reason is the missing output *)
    (id = gen_id Hb i o ts -> elems i <> [] -> unmarshal_tx on_curve Hb (JObj fs) = Err DNoOutput) /\
    (id = gen_id Hb i o ts -> elems i = [] -> unmarshal_tx on_curve Hb (JObj fs) = Err DNoReward).
  Proof.
    intros E1 E2 E3 E4 E5 E6 Ho. unfold unmarshal_tx.
    rewrite E1; cbn [bind]. rewrite E2; cbn [bind]. rewrite E3; cbn [bind].
    rewrite E4; cbn [bind]. rewrite E5; cbn [bind]. rewrite E6; cbn [bind].
    unfold tx_shape. rewrite Ho.
    destruct (String.eqb (gen_id Hb i o ts) id) eqn:Eq; cbn [negb].
    - split; [destruct (elems i); cbn [bind]; eexists; reflexivity|].
      split; intros _ Hi; destruct (elems i); try congruence; reflexivity.
    - split; [eexists; reflexivity|].
      split; intros Hid; subst id; rewrite String.eqb_refl in Eq; discriminate.
  Qed.

  (* the same at tree level: no "outputs" key, or its last occurrence is null or [] *)
  Theorem C14_no_outputs_tree_rejected (fs : list (string * json)) :
    get_fields "outputs" fs = [] \/
    (exists pre, get_fields "outputs" fs = pre ++ [JNull] \/
                 get_fields "outputs" fs = pre ++ [JArr []]) ->
    exists e, unmarshal_tx on_curve Hb (JObj fs) = Err e.
  Proof.
    intros Hg. destruct (unmarshal_tx on_curve Hb (JObj fs)) as [t|e] eqn:Eu;
      [exfalso | eexists; reflexivity].
    pose proof (unmarshal_tx_nonempty _ _ _ _ Eu) as Hne.
    unfold unmarshal_tx in Eu.
    bind_inv Eu as a E Hb0. bind_inv Hb0 as a0 E0 Hb1. bind_inv Hb1 as a1 E1 Hb2.
    bind_inv Hb2 as a2 E2 Hb3. bind_inv Hb3 as a3 E3 Hb4. bind_inv Hb4 as a4 E4 Hb5.
    destruct (negb (String.eqb (gen_id Hb a3 a4 a2) a)); [discriminate|].
    bind_inv Hb5 as a5 E5 Hb6. injection Hb6 as <-.
    apply Hne. unfold outs. cbn [t_outs].
    apply (no_nulls_elems _ _ E4). exact (field_last_empty _ _ _ _ Hg E1).
  Qed.

  (* ---- null elements ---- *)
  (* go: transaction.go:47,52 *)
  Theorem C14_null_elements_rejected (fs : list (string * json)) (pre l : list json) :
    get_fields "inputs" fs = pre ++ [JArr l] \/ get_fields "outputs" fs = pre ++ [JArr l] ->
    In JNull l ->
    exists e, unmarshal_tx on_curve Hb (JObj fs) = Err e.
  Proof.
    intros Hg Hin. destruct (unmarshal_tx on_curve Hb (JObj fs)) as [t|e] eqn:Eu;
      [exfalso | eexists; reflexivity].
    unfold unmarshal_tx in Eu.
    bind_inv Eu as a E Hb0. bind_inv Hb0 as a0 E0 Hb1. bind_inv Hb1 as a1 E1 Hb2.
    bind_inv Hb2 as a2 E2 Hb3. bind_inv Hb3 as a3 E3 Hb4. bind_inv Hb4 as a4 E4 Hb5.
    destruct Hg as [Hg|Hg].
    - rewrite (no_nulls_null a0 (field_last_null _ _ _ _ _ _ Hg Hin E0)) in E3. discriminate.
    - rewrite (no_nulls_null a1 (field_last_null _ _ _ _ _ _ Hg Hin E1)) in E4. discriminate.
  Qed.

  (* when the four fields decode, the reason is the null element *)
  Theorem C14_null_elements_reason (fs : list (string * json)) (id : string)
          (i0 : slice (option input)) (o0 : slice (option output)) (ts : Z) :
    dec_field dec_str "id" fs EmptyString = Ok id ->
    dec_field (dec_slice (dec_ptr (unmarshal_input on_curve))) "inputs" fs None = Ok i0 ->
    dec_field (dec_slice (dec_ptr unmarshal_output)) "outputs" fs None = Ok o0 ->
    dec_field dec_i64 "timestamp" fs 0%Z = Ok ts ->
    In None (elems i0) \/ In None (elems o0) ->
    unmarshal_tx on_curve Hb (JObj fs) = Err DNullElem.
  Proof.
    intros E1 E2 E3 E4 Hnull. unfold unmarshal_tx.
    rewrite E1; cbn [bind]. rewrite E2; cbn [bind]. rewrite E3; cbn [bind].
    rewrite E4; cbn [bind].
    destruct (no_nulls i0) as [i|e] eqn:Ei; cbn [bind].
    - destruct Hnull as [Hn|Hn]; [rewrite (no_nulls_null i0 Hn) in Ei; discriminate|].
      rewrite (no_nulls_null o0 Hn). reflexivity.
    - rewrite (no_nulls_err i0 e Ei). reflexivity.
  Qed.

  (* go: block.go:37 *)
  Theorem C14_null_transaction_rejected (fs : list (string * json)) (pre l : list json) :
    get_fields "transactions" fs = pre ++ [JArr l] -> In JNull l ->
    exists e, unmarshal_block on_curve Hb (JObj fs) = Err e.
  Proof.
    intros Hg Hin. destruct (unmarshal_block on_curve Hb (JObj fs)) as [b|e] eqn:Eu;
      [exfalso | eexists; reflexivity].
    unfold unmarshal_block in Eu.
    bind_inv Eu as a E Hb0. bind_inv Hb0 as a0 E0 Hb1. bind_inv Hb1 as a1 E1 Hb2.
    bind_inv Hb2 as a2 E2 Hb3. bind_inv Hb3 as a3 E3 Hb4. bind_inv Hb4 as a4 E4 Hb5.
    rewrite (no_nulls_null a3 (field_last_null _ _ _ _ _ _ Hg Hin E3)) in E4. discriminate.
  Qed.

  (* go: blockchain.go:285-289 *)
  Theorem C14_null_block_rejected (l : list json) :
    In JNull l -> response_of_answer on_curve Hb (JArr l) = RFail EDecode.
  Proof.
    intros Hin. apply bad_answer_fails. unfold bad_answer, unmarshal_blocks.
    destruct (map_res (dec_ptr (unmarshal_block on_curve Hb)) l) as [x|e] eqn:Em.
    - right. exists x. split; [reflexivity | exact (map_res_null _ l x Hin Em)].
    - left. exists e. reflexivity.
  Qed.

  (* trees of the wrong kind *)
  Lemma C14_wrong_kind_rejected (j : json) :
    (forall fs, j <> JObj fs) ->
    unmarshal_tx on_curve Hb j = Err DType /\ unmarshal_block on_curve Hb j = Err DType /\
    unmarshal_request on_curve Hb j = Err DType.
  Proof. intros Hj. destruct j; try (repeat split; reflexivity). exfalso. exact (Hj l eq_refl). Qed.
End Rejected.

(* ------------------------------------------------------------------ *)
(* 7. the panic sites are real                                         *)
(* ------------------------------------------------------------------ *)
(* utxos_registry.go:99: a transaction with an empty outputs list that reaches UpdateUtxos *)
Lemma update_utxos_empty_outputs_panics (reg : ureg) (t : tx) (r : list tx) (ts : Z) :
  outs t = [] -> alookup (t_id t) (by_id reg) = None ->
  update_utxos reg (t :: r) ts = Err (EPanic PsNoOutputs).
Proof.
  intros Ho Hid. unfold update_utxos. cbn [apply_txs]. unfold apply_tx, records_outputs.
  rewrite Hid, Ho. reflexivity.
Qed.

Module PanicExample.
  Local Open Scope string_scope.
  Definition vf : N -> bool -> Z -> N := fun v _ _ => v.
  Definition ao : string -> string := fun k => k.
  Definition so : input -> bool := fun _ => true.
  Definition Sx : settings := mkSettings 10 0 100 8.
  (* a well-formed value that json.Unmarshal of the pinned tree produced from
     {"id":...,"inputs":[],"outputs":[],"timestamp":10} *)
  Definition t_empty : tx := mkTx "x" (Some []) (Some []) 10.
  Definition g : block := mkBlock zero_hash None None 10 None.
  Definition n1 : node := mkNode (mkC [g] ureg_empty areg_empty) None.

  (* toy oracles and JSON trees for the examples of props/C14.v *)
  Definition Hk : block -> hash := fun _ => zero_hash.
  Definition gid : slice input -> slice output -> Z -> string := fun _ _ _ => "r".
  Definition S1 : settings := mkSettings 10 1 100 8.
  Definition oc : string -> bool := fun _ => true.
  Definition Hz : list N -> list N := fun _ => [].      (* every id is "" *)
  Fixpoint rep (n : nat) (c : ascii) : string :=
    match n with O => "" | S k => String c (rep k c) end.
  Definition key : string := "0x04" ++ rep 128 "a".
  Definition sg : string := rep 128 "b".
  Definition jin : json :=
    JObj [("output_index", JNum 0); ("transaction_id", JStr "r");
          ("public_key", JStr key); ("signature", JStr sg)].
  Definition jout : json :=
    JObj [("address", JStr "A"); ("is_yielding", JBool false); ("value", JNum 5)].
  Definition jtx (ins outs : json) : json :=
    JObj [("id", JStr ""); ("inputs", ins); ("outputs", outs); ("timestamp", JNum 10)].
  Definition jreq (t : json) : json :=
    JObj [("Transaction", t); ("TransactionBroadcasterTarget", JStr "h:1")].
  Definition jblock (ts : Z) (l : json) : json :=
    JObj [("previous_hash", JArr []); ("timestamp", JNum ts); ("transactions", l)].
  (* the node after its genesis block, produced by the validator whose address is [key] *)
  Definition n_gen : node :=
    wire_step vf ao so Hk gid S1 key oc Hz node_empty (WTick 10 []).
End PanicExample.

Lemma n_gen_ok : node_ok PanicExample.n_gen.
Proof. apply wire_step_preserves_ok. exact node_empty_ok. Qed.

Theorem C14_legacy_refuted :
  update_utxos ureg_empty [PanicExample.t_empty] 10 = Err (EPanic PsNoOutputs) /\
  pool_add PanicExample.vf PanicExample.ao PanicExample.so PanicExample.Sx
           PanicExample.n1 PanicExample.t_empty = Err (EPanic PsNoOutputs) /\
  ~ tx_ok PanicExample.t_empty.
Proof.
  split; [vm_compute; reflexivity|]. split; [vm_compute; reflexivity|].
  intros Hk. apply Hk. reflexivity.
Qed.
