(* Panic_lemmas.v — C14: nothing that comes through the decoders can reach a panic site.
   [EPanic s] (model/Ledger.v) marks the places where the Go code would panic instead of
   returning an error. The only site reachable from the entry points of model/Handlers.v is
   PsNoOutputs (utxos_registry.go:99, Outputs()[0]); the decoders refuse transactions without
   outputs, so "every transaction the node holds has an output" is an invariant, and under it
   no operation returns EPanic. *)
From Coq Require Import Lia ZArith NArith.
From RV Require Import model.Base model.Json model.Ledger model.Registry model.Chain model.Sync
     model.Pool model.Reach model.WireDec model.Handlers.
From RV Require Import proofs.Ledger_fee proofs.Ledger_update proofs.Chain_verify
     proofs.Wire_lemmas proofs.Paging_lemmas proofs.Pool_lemmas proofs.Sync_lemmas
     proofs.Fetch_lemmas.

(* ------------------------------------------------------------------ *)
(* 1. the invariant                                                    *)
(* ------------------------------------------------------------------ *)
Definition tx_ok (t : tx) : Prop := outs t <> [].
Definition block_ok (b : block) : Prop := Forall tx_ok (txs b).
Definition node_ok (n : node) : Prop :=
  Forall tx_ok (elems (n_pool n)) /\ Forall block_ok (chain (n_c n)).

Lemma node_empty_ok : node_ok node_empty.
Proof. split; constructor. Qed.

(* ---- list helpers ---- *)
Lemma last_block_In (c : list block) (b : block) : last_block c = Some b -> In b c.
Proof.
  unfold last_block. intros Hl. apply in_rev.
  destruct (rev c) as [|x r]; [discriminate|]. injection Hl as <-. left. reflexivity.
Qed.

Lemma last_block_app (c : list block) (b : block) : last_block (c ++ [b]) = Some b.
Proof. unfold last_block. rewrite rev_app_distr. reflexivity. Qed.

Lemma last_block_ok (c : list block) (b : block) :
  Forall block_ok c -> last_block c = Some b -> block_ok b.
Proof.
  intros Hc Hl. apply last_block_In in Hl. rewrite Forall_forall in Hc. apply Hc. exact Hl.
Qed.

Lemma last_block_txs_ok (c : list block) : Forall block_ok c -> Forall tx_ok (last_block_txs c).
Proof.
  intros Hc. unfold last_block_txs. destruct (last_block c) as [b|] eqn:El; [|constructor].
  apply (last_block_ok c b Hc El).
Qed.

Lemma removelast_ok (c : list block) : Forall block_ok c -> Forall block_ok (removelast c).
Proof.
  intros Hc. rewrite Forall_forall in *. intros b Hb. apply Hc.
  destruct c as [|x r]; [destruct Hb|].
  assert (Hne : x :: r <> []) by discriminate.
  rewrite (app_removelast_last x Hne). apply in_or_app. left. exact Hb.
Qed.

Lemma firstn_ok {A} (P : A -> Prop) (k : nat) (l : list A) : Forall P l -> Forall P (firstn k l).
Proof.
  intros Hl. rewrite Forall_forall in *. intros x Hx. apply Hl.
  rewrite <- (firstn_skipn k l). apply in_or_app. left. exact Hx.
Qed.

Lemma skipn_ok {A} (P : A -> Prop) (k : nat) (l : list A) : Forall P l -> Forall P (skipn k l).
Proof.
  intros Hl. rewrite Forall_forall in *. intros x Hx. apply Hl.
  rewrite <- (firstn_skipn k l). apply in_or_app. right. exact Hx.
Qed.

(* [update_utxos] on transactions that all have an output *)
Lemma update_ok_no_panic (reg : ureg) (l : list tx) (ts : Z) (s : panic_site) :
  Forall tx_ok l -> update_utxos reg l ts <> Err (EPanic s).
Proof.
  intros Hl. apply update_utxos_no_panic. rewrite Forall_forall in Hl. exact Hl.
Qed.

(* ------------------------------------------------------------------ *)
(* 2. the decoders establish it                                        *)
(* ------------------------------------------------------------------ *)
Section Decoded.
  Variable on_curve : string -> bool.
  Variable Hb : list N -> list N.

  Lemma decoded_tx_ok (j : json) (t : tx) : unmarshal_tx on_curve Hb j = Ok t -> tx_ok t.
  Proof. apply unmarshal_tx_nonempty. Qed.

  Lemma decoded_block_ok (j : json) (b : block) :
    unmarshal_block on_curve Hb j = Ok b -> block_ok b.
  Proof. apply unmarshal_block_txs_nonempty. Qed.

  Lemma decoded_request_ok (j : json) (t : tx) (g : string) :
    unmarshal_request on_curve Hb j = Ok (Some t, g) -> tx_ok t.
  Proof.
    unfold unmarshal_request. destruct j; try discriminate. intros Hd.
    bind_inv Hd as o E Hd0. bind_inv Hd0 as g0 E0 Hd1. injection Hd1 as -> _.
    unfold dec_field in E.
    apply (dec_seq_inv (fun o => match o with Some t => tx_ok t | None => True end)
                       (fun _ => dec_ptr (unmarshal_tx on_curve Hb))
                       (get_fields "Transaction" l)) with (init := None) (v := Some t);
      [|exact I|exact E].
    intros cur j v _ Hp. unfold dec_ptr in Hp.
    destruct j; try (injection Hp as <-; exact I);
      match type of Hp with
      | match ?x with _ => _ end = _ => destruct x as [a|e] eqn:Eu; [|discriminate]
      end; injection Hp as <-; apply (decoded_tx_ok _ _ Eu).
  Qed.

  Lemma all_blocks_spec (l : list (option block)) (bs : list block) :
    all_blocks l = Some bs -> l = map Some bs.
  Proof.
    revert bs. induction l as [|[b|] r IH]; cbn [all_blocks]; intros bs Ha.
    - injection Ha as <-. reflexivity.
    - destruct (all_blocks r) as [x|] eqn:E; [|discriminate]. injection Ha as <-.
      cbn [map]. f_equal. apply IH. reflexivity.
    - discriminate.
  Qed.

  Lemma all_blocks_null (l : list (option block)) : In None l -> all_blocks l = None.
  Proof.
    induction l as [|[b|] r IH]; cbn [all_blocks]; intros Hin.
    - destruct Hin.
    - destruct Hin as [Hin|Hin]; [discriminate|]. rewrite (IH Hin). reflexivity.
    - reflexivity.
  Qed.

  Lemma decoded_blocks_ok (j : json) (l : list block) :
    response_of_answer on_curve Hb j = RBlocks l -> Forall block_ok l.
  Proof.
    unfold response_of_answer.
    destruct (unmarshal_blocks on_curve Hb j) as [ol|e] eqn:Eu; [|discriminate].
    destruct (all_blocks ol) as [bs|] eqn:Ea; [|discriminate].
    intros Hr. injection Hr as <-. apply all_blocks_spec in Ea. subst ol.
    unfold unmarshal_blocks in Eu. destruct j; try discriminate.
    - destruct bs; [constructor|discriminate].
    - assert (Hall : Forall (fun o => match o with Some b => block_ok b | None => True end)
                            (map Some bs)).
      { eapply (map_res_ok (dec_ptr (unmarshal_block on_curve Hb))); [|exact Eu].
        intros a [b|] Hp; [|exact I].
        unfold dec_ptr in Hp.
        destruct a; try discriminate;
          match type of Hp with
          | match ?x with _ => _ end = _ => destruct x as [b0|e] eqn:E0; [|discriminate]
          end; injection Hp as <-; apply (decoded_block_ok _ _ E0). }
      clear Eu. induction bs as [|b r IH]; [constructor|].
      cbn [map] in Hall. inversion Hall; subst. constructor; [assumption | apply IH; assumption].
  Qed.

  (* an answer that does not decode, or holds a null block, is a failed answer *)
  Definition bad_answer (j : json) : Prop :=
    (exists e, unmarshal_blocks on_curve Hb j = Err e) \/
    (exists l, unmarshal_blocks on_curve Hb j = Ok l /\ In None l).

  Lemma bad_answer_fails (j : json) :
    bad_answer j -> response_of_answer on_curve Hb j = RFail EDecode.
  Proof.
    unfold response_of_answer. intros [[e He]|(l & Hl & Hin)].
    - rewrite He. reflexivity.
    - rewrite Hl, (all_blocks_null l Hin). reflexivity.
  Qed.

  Lemma response_cases (j : json) :
    response_of_answer on_curve Hb j = RFail EDecode \/
    exists l, response_of_answer on_curve Hb j = RBlocks l /\ Forall block_ok l.
  Proof.
    destruct (response_of_answer on_curve Hb j) as [e|l] eqn:Er.
    - left. unfold response_of_answer in Er.
      destruct (unmarshal_blocks on_curve Hb j) as [ol|e0]; [|injection Er as <-; reflexivity].
      destruct (all_blocks ol); [discriminate | injection Er as <-; reflexivity].
    - right. exists l. split; [reflexivity | exact (decoded_blocks_ok j l Er)].
  Qed.
End Decoded.

(* ------------------------------------------------------------------ *)
(* 3. no operation panics on an ok node with ok inputs                 *)
(* ------------------------------------------------------------------ *)
Section Ops.
  Variable value_fn : N -> bool -> Z -> N.
  Variable addr_of : string -> string.
  Variable sig_ok : input -> bool.
  Variable H : block -> hash.
  Variable gen_id : slice input -> slice output -> Z -> string.
  Variable Se : settings.
  Variable validator : string.

  Notation calc_fee := (Ledger.calc_fee value_fn addr_of).
  Notation pool_add := (Pool.pool_add value_fn addr_of sig_ok Se).
  Notation validate := (Pool.validate value_fn addr_of sig_ok H gen_id Se validator).
  Notation verify := (Chain.verify value_fn addr_of sig_ok H Se).
  Notation verify_loop := (Chain.verify_loop value_fn addr_of sig_ok H Se).
  Notation verify_step := (Chain.verify_step value_fn addr_of sig_ok H Se).
  Notation update := (Sync.update value_fn addr_of sig_ok H Se).
  Notation candidates := (Sync.candidates value_fn addr_of sig_ok H Se).
  Notation step := (Reach.step value_fn addr_of sig_ok H gen_id Se validator).

  (* ---- transaction submission ---- *)
  Lemma pool_add_no_panic (n : node) (t : tx) (s : panic_site) :
    node_ok n -> tx_ok t -> pool_add n t <> Err (EPanic s).
  Proof.
    intros [Hp Hc] Ht. unfold Pool.pool_add. cbv zeta.
    destruct (last_block_ts (chain (n_c n)) =? 0)%Z; [discriminate|].
    destruct (last_block_ts (chain (n_c n)) + s_interval Se <? t_ts t)%Z; [discriminate|].
    destruct (t_ts t <? last_block_ts (chain (n_c n)))%Z; [discriminate|].
    destruct (mem_str (t_id t) (pool_ids n)); [discriminate|].
    destruct (negb (verify_sigs sig_ok t)); [discriminate|].
    destruct (update_utxos (ur (n_c n)) (last_block_txs (chain (n_c n)))
                           (last_block_ts (chain (n_c n)))) as [u1|e1] eqn:E1.
    2:{ intros Heq. injection Heq as ->.
        exact (update_ok_no_panic _ _ _ s (last_block_txs_ok _ Hc) E1). }
    destruct (update_utxos u1 (elems (n_pool n))
                           (last_block_ts (chain (n_c n)) + s_interval Se)) as [u2|e2] eqn:E2.
    2:{ intros Heq. injection Heq as ->. exact (update_ok_no_panic _ _ _ s Hp E2). }
    destruct (calc_fee (s_fee Se) u2 t (last_block_ts (chain (n_c n)) + s_interval Se))
      as [f|e3] eqn:E3.
    2:{ intros Heq. injection Heq as ->. exact (calc_fee_err_no_state _ _ _ _ _ _ s E3). }
    destruct (update_utxos u2 [t] (last_block_ts (chain (n_c n)) + s_interval Se))
      as [u3|e4] eqn:E4; [discriminate|].
    intros Heq. injection Heq as ->.
    refine (update_ok_no_panic _ _ _ s _ E4). constructor; [exact Ht | constructor].
  Qed.

  Lemma pool_add_preserves_ok (n : node) (t : tx) (n' : node) :
    node_ok n -> tx_ok t -> pool_add n t = Ok n' -> node_ok n'.
  Proof.
    intros [Hp Hc] Ht Ha. rewrite (pool_add_node _ _ _ _ _ _ _ Ha).
    split; cbn [n_pool n_c]; [|exact Hc].
    unfold sl_app. cbn [elems]. apply Forall_app. split; [exact Hp|].
    constructor; [exact Ht | constructor].
  Qed.

  (* ---- block production ---- *)
  Lemma validate_no_panic (n : node) (ts : Z) (perm : list nat) (s : panic_site) :
    node_ok n -> snd (validate n ts perm) <> Refused (EPanic s).
  Proof.
    intros [Hp Hc]. destruct (validate n ts perm) as [n' o] eqn:Ev. cbn [snd].
    intros Ho. subst o.
    destruct (validate_refused_same _ _ _ _ _ _ _ _ _ _ _ _ Ev) as [_ [He|[He|He]]];
      [discriminate | discriminate |].
    exact (update_ok_no_panic _ _ _ s (last_block_txs_ok _ Hc) He).
  Qed.

  (* the drop log of a produced block never records a panic either: the per-transaction
     CalculateFee / UpdateUtxos calls of transactions_pool.go:96-124 are on pooled transactions *)
  Lemma drop_reason_no_panic (last next ts : Z) (u : ureg) (t : tx) (s : panic_site) :
    tx_ok t ->
    drop_reason value_fn addr_of sig_ok Se last next ts u t <> DFee (EPanic s) /\
    drop_reason value_fn addr_of sig_ok Se last next ts u t <> DUpdate (EPanic s).
  Proof.
    intros Ht. unfold drop_reason.
    destruct (ts <? t_ts t)%Z; [split; discriminate|].
    destruct (t_ts t <? last)%Z; [split; discriminate|].
    destruct (negb (verify_sigs sig_ok t)); [split; discriminate|].
    destruct (calc_fee (s_fee Se) u t ts) as [f|e] eqn:Ef.
    - destruct (update_utxos u [t] next) as [u'|e] eqn:Eu; [split; discriminate|].
      split; [discriminate|]. intros Heq. injection Heq as ->.
      refine (update_ok_no_panic _ _ _ s _ Eu). constructor; [exact Ht | constructor].
    - split; [|discriminate]. intros Heq. injection Heq as ->.
      exact (calc_fee_err_no_state _ _ _ _ _ _ s Ef).
  Qed.

  Lemma greedy_log_In (last next ts : Z) (l : list tx) : forall (u : ureg) (id : string) (d : drop),
    In (id, d) (greedy_log value_fn addr_of sig_ok Se last next ts l u) ->
    exists t u', In t l /\ d = drop_reason value_fn addr_of sig_ok Se last next ts u' t.
  Proof.
    induction l as [|t r IH]; intros u id d Hin; cbn [greedy_log] in Hin; [destruct Hin|].
    destruct (keeps value_fn addr_of sig_ok Se last next ts u t) as [[f u']|].
    - destruct (IH _ _ _ Hin) as (t0 & u0 & Ht0 & Hd). exists t0, u0. split; [right; exact Ht0 | exact Hd].
    - destruct Hin as [Hin|Hin].
      + injection Hin as _ <-. exists t, u. split; [left; reflexivity | reflexivity].
      + destruct (IH _ _ _ Hin) as (t0 & u0 & Ht0 & Hd). exists t0, u0.
        split; [right; exact Ht0 | exact Hd].
  Qed.

  Lemma validate_drops_no_panic (n : node) (ts : Z) (perm : list nat) (dropped : list (string * drop))
        (id : string) (s : panic_site) :
    node_ok n -> snd (validate n ts perm) = Produced dropped ->
    ~ In (id, DFee (EPanic s)) dropped /\ ~ In (id, DUpdate (EPanic s)) dropped.
  Proof.
    intros [Hp Hc]. destruct (validate n ts perm) as [n' o] eqn:Ev. cbn [snd]. intros ->.
    pose proof (validate_produced _ _ _ _ _ _ _ _ _ _ _ _ Ev) as Hv. cbv zeta in Hv.
    destruct Hv as (kept & reward & u0 & _ & _ & _ & Hd & _). subst dropped.
    assert (Hany : forall d, In (id, d) (greedy_log value_fn addr_of sig_ok Se
                     (last_block_ts (chain (n_c n)))
                     (last_block_ts (chain (n_c n)) + s_interval Se) ts
                     (permute perm (elems (n_pool n))) u0) ->
                   d <> DFee (EPanic s) /\ d <> DUpdate (EPanic s)).
    { intros d Hin. destruct (greedy_log_In _ _ _ _ _ _ _ Hin) as (t & u' & Ht & ->).
      apply drop_reason_no_panic. apply permute_incl in Ht.
      rewrite Forall_forall in Hp. apply Hp. exact Ht. }
    split; intros Hin; destruct (Hany _ Hin) as [A B]; [apply A | apply B]; reflexivity.
  Qed.

  Lemma reward_tx_ok (y : bool) (ts : Z) (v : N) : tx_ok (reward_tx gen_id validator y ts v).
  Proof. unfold tx_ok, reward_tx, outs. cbn. discriminate. Qed.

  Lemma validate_preserves_ok (n : node) (ts : Z) (perm : list nat) :
    node_ok n -> node_ok (fst (validate n ts perm)).
  Proof.
    intros Hn. destruct (validate n ts perm) as [n' [d|e]] eqn:Ev; cbn [fst].
    - destruct Hn as [Hp Hc].
      pose proof (validate_produced _ _ _ _ _ _ _ _ _ _ _ _ Ev) as Hv. cbv zeta in Hv.
      destruct Hv as (kept & reward & u0 & _ & _ & _ & _ & Hch & Hpool & Hincl & Htxs & _).
      split.
      + rewrite Hpool. constructor.
      + rewrite Hch. apply Forall_app. split; [exact Hc|]. constructor; [|constructor].
        unfold block_ok. rewrite Htxs. apply Forall_app. split.
        * rewrite Forall_forall in *. intros t Ht. apply Hp. apply Hincl. exact Ht.
        * constructor; [apply reward_tx_ok | constructor].
    - destruct (validate_refused_same _ _ _ _ _ _ _ _ _ _ _ _ Ev) as [-> _]. exact Hn.
  Qed.
End Ops.
