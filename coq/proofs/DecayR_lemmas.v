(* Lemmas about the real-number model of Utxo.Value (model/DecayR.v), for property C09. *)
From RV Require Import model.DecayR.
From Coq Require Import Reals ZArith Lra Lia.
Local Open Scope R_scope.

(* ------------------------------------------------------------------ *)
(* exp / ln helpers                                                    *)
(* ------------------------------------------------------------------ *)

Lemma ln2_pos : 0 < ln 2.
Proof. pose proof ln_lt_2. lra. Qed.

Lemma exp_le x y : x <= y -> exp x <= exp y.
Proof. intros [H|H]; [left; apply exp_increasing; exact H | subst; right; reflexivity]. Qed.

Lemma exp_le_1 x : x <= 0 -> exp x <= 1.
Proof. intro H. rewrite <- exp_0. apply exp_le; exact H. Qed.

Lemma ln_le_mono x y : 0 < x -> x <= y -> ln x <= ln y.
Proof. intros Hx [H|H]; [left; apply ln_increasing; assumption | subst; right; reflexivity]. Qed.

Lemma decay_arg_anti x x' h : 0 < h -> x <= x' -> - x' * ln 2 / h <= - x * ln 2 / h.
Proof.
  intros Hh Hx. pose proof ln2_pos as H2.
  assert (0 <= (x' - x) * ln 2 * / h).
  { apply Rmult_le_pos; [apply Rmult_le_pos; lra | left; apply Rinv_0_lt_compat; lra]. }
  unfold Rdiv. lra.
Qed.

Lemma decay_arg_nonpos x h : 0 <= x -> 0 < h -> - x * ln 2 / h <= 0.
Proof.
  intros Hx Hh. pose proof (decay_arg_anti 0 x h Hh Hx) as H.
  replace (- 0 * ln 2 / h) with 0 in H by (unfold Rdiv; ring). exact H.
Qed.

(* ------------------------------------------------------------------ *)
(* F: non-yielding outputs                                             *)
(* ------------------------------------------------------------------ *)

Lemma F_nonneg y x h : 0 <= y -> 0 <= F y x h.
Proof. intros Hy. unfold F. apply Rmult_le_pos; [exact Hy | left; apply exp_pos]. Qed.

Lemma F_le y x h : 0 <= y -> 0 <= x -> 0 < h -> F y x h <= y.
Proof.
  intros Hy Hx Hh. unfold F.
  pose proof (exp_le_1 _ (decay_arg_nonpos x h Hx Hh)) as H1.
  rewrite <- (Rmult_1_r y) at 2. apply Rmult_le_compat_l; assumption.
Qed.

Lemma F_anti y x x' h : 0 <= y -> 0 < h -> x <= x' -> F y x' h <= F y x h.
Proof.
  intros Hy Hh Hx. unfold F. apply Rmult_le_compat_l; [exact Hy|].
  apply exp_le, decay_arg_anti; assumption.
Qed.

Lemma F_mono_y y1 y2 x h : y1 <= y2 -> F y1 x h <= F y2 x h.
Proof. intros H. unfold F. apply Rmult_le_compat_r; [left; apply exp_pos | exact H]. Qed.

Lemma F_zero y h : F y 0 h = y.
Proof. unfold F. replace (- 0 * ln 2 / h) with 0 by (unfold Rdiv; ring). rewrite exp_0. ring. Qed.

Lemma F_half y h : 0 < h -> F y h h = y / 2.
Proof.
  intros Hh. unfold F. replace (- h * ln 2 / h) with (- ln 2) by (field; lra).
  rewrite exp_Ropp, exp_ln by lra. reflexivity.
Qed.

Lemma F_semigroup y x1 x2 h : 0 < h -> F (F y x1 h) x2 h = F y (x1 + x2) h.
Proof.
  intros Hh. unfold F.
  replace (- (x1 + x2) * ln 2 / h) with (- x1 * ln 2 / h + - x2 * ln 2 / h) by (field; lra).
  rewrite exp_plus. ring.
Qed.

(* "halves every half-life", from any starting age *)
Lemma F_half_step y x h : 0 < h -> F y (x + h) h = F y x h / 2.
Proof. intros Hh. rewrite <- F_semigroup by exact Hh. apply F_half; exact Hh. Qed.

(* ------------------------------------------------------------------ *)
(* floor                                                               *)
(* ------------------------------------------------------------------ *)

Lemma Rfloor_le r : Rfloor r <= r.
Proof. unfold Rfloor. destruct (base_Int_part r); lra. Qed.

Lemma Rfloor_gt r : r - 1 < Rfloor r.
Proof. unfold Rfloor. destruct (base_Int_part r); lra. Qed.

Lemma Rfloor_unique r z : IZR z <= r -> r < IZR z + 1 -> Rfloor r = IZR z.
Proof.
  intros H1 H2. unfold Rfloor. f_equal.
  destruct (base_Int_part r) as [A B]. set (n := Int_part r) in *.
  destruct (Z.lt_trichotomy n z) as [C|[C|C]]; [exfalso | exact C | exfalso].
  - assert (n + 1 <= z)%Z as D by lia. apply IZR_le in D. rewrite plus_IZR in D. lra.
  - assert (z + 1 <= n)%Z as D by lia. apply IZR_le in D. rewrite plus_IZR in D. lra.
Qed.

Lemma Rfloor_IZR z : Rfloor (IZR z) = IZR z.
Proof. apply Rfloor_unique; lra. Qed.

Lemma Rfloor_add_IZR r z : Rfloor (r + IZR z) = Rfloor r + IZR z.
Proof.
  unfold Rfloor at 2. rewrite <- plus_IZR. apply Rfloor_unique; rewrite plus_IZR;
    pose proof (Rfloor_le r); pose proof (Rfloor_gt r); unfold Rfloor in *; lra.
Qed.

Lemma Rfloor_mono r1 r2 : r1 <= r2 -> Rfloor r1 <= Rfloor r2.
Proof.
  intros H. unfold Rfloor. apply IZR_le.
  destruct (Z_le_gt_dec (Int_part r1) (Int_part r2)) as [C|C]; [exact C | exfalso].
  assert (Int_part r2 + 1 <= Int_part r1)%Z as D by lia.
  apply IZR_le in D. rewrite plus_IZR in D.
  destruct (base_Int_part r1), (base_Int_part r2). lra.
Qed.

Lemma Rfloor_nonneg r : 0 <= r -> 0 <= Rfloor r.
Proof. intros H. rewrite <- (Rfloor_IZR 0). apply Rfloor_mono; exact H. Qed.

(* ------------------------------------------------------------------ *)
(* Fz: f with the uint64 truncation                                    *)
(* ------------------------------------------------------------------ *)

Lemma Fz_le_F y x h : Fz y x h <= F y x h.
Proof. apply Rfloor_le. Qed.

Lemma Fz_le y x h : 0 <= y -> 0 <= x -> 0 < h -> Fz y x h <= F y x h /\ F y x h <= y.
Proof. intros. split; [apply Fz_le_F | apply F_le; assumption]. Qed.

Lemma Fz_within_one y x h : F y x h - 1 < Fz y x h /\ Fz y x h <= F y x h.
Proof. split; [apply Rfloor_gt | apply Rfloor_le]. Qed.

Lemma Fz_nonneg y x h : 0 <= y -> 0 <= Fz y x h.
Proof. intros. apply Rfloor_nonneg, F_nonneg; assumption. Qed.

Lemma Fz_anti y x x' h : 0 <= y -> 0 < h -> x <= x' -> Fz y x' h <= Fz y x h.
Proof. intros. apply Rfloor_mono, F_anti; assumption. Qed.

Lemma Fz_mono_y y1 y2 x h : y1 <= y2 -> Fz y1 x h <= Fz y2 x h.
Proof. intros. apply Rfloor_mono, F_mono_y; assumption. Qed.

Lemma Fz_zero (y : Z) h : Fz (IZR y) 0 h = IZR y.
Proof. unfold Fz. rewrite F_zero. apply Rfloor_IZR. Qed.

(* no gain from splitting an interval: even without the "+ 1" *)
Lemma Fz_no_gain_strong y x1 x2 h : 0 < h -> Fz (Fz y x1 h) x2 h <= Fz y (x1 + x2) h.
Proof.
  intros Hh. unfold Fz at 1 3. apply Rfloor_mono.
  rewrite <- F_semigroup by exact Hh. apply F_mono_y, Fz_le_F.
Qed.

Lemma Fz_no_gain y x1 x2 h : 0 < h -> Fz (Fz y x1 h) x2 h <= Fz y (x1 + x2) h + 1.
Proof. intros Hh. pose proof (Fz_no_gain_strong y x1 x2 h Hh). lra. Qed.

(* ------------------------------------------------------------------ *)
(* pow0                                                                *)
(* ------------------------------------------------------------------ *)

Lemma pow0_0 b : pow0 0 b = 0.
Proof. unfold pow0. destruct (Req_EM_T 0 0) as [_|n]; [reflexivity | exfalso; apply n; reflexivity]. Qed.

Lemma pow0_pos_eq a b : 0 < a -> pow0 a b = exp (b * ln a).
Proof. intros Ha. unfold pow0. destruct (Req_EM_T a 0); [lra | reflexivity]. Qed.

Lemma pow0_pos a b : 0 < a -> 0 < pow0 a b.
Proof. intros Ha. rewrite pow0_pos_eq by exact Ha. apply exp_pos. Qed.

Lemma pow0_nonneg a b : 0 <= pow0 a b.
Proof. unfold pow0. destruct (Req_EM_T a 0); [lra | left; apply exp_pos]. Qed.

Lemma pow0_pow0 a b c : 0 <= a -> pow0 (pow0 a b) c = pow0 a (b * c).
Proof.
  intros [Ha|Ha].
  - rewrite (pow0_pos_eq a b), (pow0_pos_eq a (b * c)) by exact Ha.
    rewrite pow0_pos_eq by apply exp_pos. rewrite ln_exp. f_equal. ring.
  - subst a. rewrite !pow0_0. reflexivity.
Qed.

Lemma pow0_1_r a : 0 <= a -> pow0 a 1 = a.
Proof.
  intros [Ha|Ha].
  - rewrite pow0_pos_eq by exact Ha. rewrite Rmult_1_l. apply exp_ln; exact Ha.
  - subst a. apply pow0_0.
Qed.

Lemma pow0_inv_l a k : 0 <= a -> k <> 0 -> pow0 (pow0 a k) (1 / k) = a.
Proof.
  intros Ha Hk. rewrite pow0_pow0 by exact Ha.
  replace (k * (1 / k)) with 1 by (field; exact Hk). apply pow0_1_r; exact Ha.
Qed.

Lemma pow0_inv_r a k : 0 <= a -> k <> 0 -> pow0 (pow0 a (1 / k)) k = a.
Proof.
  intros Ha Hk. rewrite pow0_pow0 by exact Ha.
  replace (1 / k * k) with 1 by (field; exact Hk). apply pow0_1_r; exact Ha.
Qed.

Lemma pow0_mono a a' b : 0 <= a -> a <= a' -> 0 < b -> pow0 a b <= pow0 a' b.
Proof.
  intros [Ha|Ha] Haa Hb.
  - rewrite !pow0_pos_eq by lra. apply exp_le.
    apply Rmult_le_compat_l; [lra | apply ln_le_mono; assumption].
  - subst a. rewrite pow0_0. apply pow0_nonneg.
Qed.

(* ------------------------------------------------------------------ *)
(* k1, k2                                                              *)
(* ------------------------------------------------------------------ *)

Lemma ln_neg u : 0 < u -> u < 1 -> ln u < 0.
Proof. intros H0 H1. rewrite <- ln_1. apply ln_increasing; assumption. Qed.

Lemma ln_nonpos u : 0 < u -> u <= 1 -> ln u <= 0.
Proof. intros H0 H1. rewrite <- ln_1. apply ln_le_mono; assumption. Qed.

Lemma div_lt_1 b l : 0 < l -> b < l -> b / l < 1.
Proof.
  intros Hl Hb. apply (Rmult_lt_reg_r l); [exact Hl|].
  unfold Rdiv. rewrite Rmult_assoc, Rinv_l by lra. lra.
Qed.

Lemma div_nonneg b l : 0 < l -> 0 <= b -> 0 <= b / l.
Proof. intros Hl Hb. apply Rmult_le_pos; [exact Hb | left; apply Rinv_0_lt_compat; exact Hl]. Qed.

Lemma k1_eq B L : B < L -> k1 B L = 3 - 2 * ln (2 * B) / ln L.
Proof. intros H. unfold k1. destruct (Rlt_dec B L); [reflexivity | contradiction]. Qed.

(* the true condition for a positive exponent: (2B)^2 < L^3 *)
Lemma k1_pos_iff B L : 0 < B -> B < L -> 1 < L -> (0 < k1 B L <-> 4 * B * B < L * L * L).
Proof.
  intros HB HBL HL. rewrite k1_eq by exact HBL.
  assert (0 < ln L) as Hq by (rewrite <- ln_1; apply ln_increasing; lra).
  assert (2 * ln (2 * B) = ln (4 * B * B)) as E1.
  { replace (4 * B * B) with ((2 * B) * (2 * B)) by ring. rewrite (ln_mult (2 * B) (2 * B)) by lra. ring. }
  assert (3 * ln L = ln (L * L * L)) as E2.
  { rewrite !ln_mult by nra. ring. }
  set (p := ln (2 * B)) in *. set (q := ln L) in *.
  assert (0 < 3 - 2 * p / q <-> 2 * p < 3 * q) as E3.
  { split; intros H.
    - assert (0 < (3 - 2 * p / q) * q) as H' by (apply Rmult_lt_0_compat; assumption).
      replace ((3 - 2 * p / q) * q) with (3 * q - 2 * p) in H' by (field; lra). lra.
    - replace (3 - 2 * p / q) with ((3 * q - 2 * p) / q) by (field; lra).
      apply Rdiv_lt_0_compat; lra. }
  rewrite E3, E1, E2. split; intros H.
  - apply ln_lt_inv; [nra | nra | exact H].
  - apply ln_increasing; [nra | exact H].
Qed.

Lemma k1_lt_3 B L : / 2 < B -> B < L -> 1 < L -> k1 B L < 3.
Proof.
  intros HB HBL HL. rewrite k1_eq by exact HBL.
  assert (0 < ln L) as Hq by (rewrite <- ln_1; apply ln_increasing; lra).
  assert (0 < ln (2 * B)) as Hp by (rewrite <- ln_1; apply ln_increasing; lra).
  assert (0 < 2 * ln (2 * B) / ln L) by (apply Rdiv_lt_0_compat; lra). lra.
Qed.

(* limit >= 4: B < L is enough, for real B and L *)
Lemma k1_pos_L4 B L : 0 < B -> B < L -> 4 <= L -> 0 < k1 B L.
Proof.
  intros HB HBL HL. apply k1_pos_iff; [lra | lra | lra |].
  assert (B * B < L * L) by nra. assert (0 <= (L - 4) * (L * L)) by (apply Rmult_le_pos; nra). nra.
Qed.

(* integer settings (as in the code: uint64 base and limit): 1 <= B < L is enough *)
Lemma k1_pos_int (B L : Z) : (1 <= B < L)%Z -> 0 < k1 (IZR B) (IZR L).
Proof.
  intros H.
  assert (4 * B * B < L * L * L)%Z as HZ.
  { destruct (Z_lt_le_dec L 4) as [C|C].
    - assert (L = 2 \/ L = 3)%Z as [E|E] by lia; subst L.
      + assert (B = 1)%Z by lia. subst B. lia.
      + assert (B = 1 \/ B = 2)%Z as [E|E] by lia; subst B; lia.
    - assert (B * B < L * L)%Z by nia. assert (0 <= (L - 4) * (L * L))%Z by nia. nia. }
  apply k1_pos_iff.
  - apply IZR_lt; lia.
  - apply IZR_lt; lia.
  - apply IZR_lt; lia.
  - rewrite <- !mult_IZR. apply IZR_lt. exact HZ.
Qed.

(* ... but for REAL base and limit with 1 <= B < L and 2 <= L the exponent can be <= 0 *)
Lemma k1_pos_real_refuted : exists B L, 1 <= B /\ B < L /\ 2 <= L /\ k1 B L <= 0.
Proof.
  exists (19 / 10), 2. repeat split; try lra.
  apply Rnot_lt_le. intros H.
  assert (4 * (19 / 10) * (19 / 10) < 2 * 2 * 2) as H'.
  { apply (proj1 (k1_pos_iff (19 / 10) 2 ltac:(lra) ltac:(lra) ltac:(lra))). exact H. }
  lra.
Qed.

Lemma k2_pos B L : 0 < B -> B < L -> 0 < k2 B L.
Proof.
  intros HB HBL. unfold k2. destruct (Rlt_dec B L) as [_|n]; [|contradiction].
  apply Rdiv_lt_0_compat; [apply ln2_pos|]. apply pow0_pos.
  assert (0 < B / L) by (apply Rdiv_lt_0_compat; lra).
  assert (B / L < 1) by (apply div_lt_1; lra).
  assert (ln (1 - B / L) < 0) by (apply ln_neg; lra). lra.
Qed.

Lemma params_ok_int h (B L : Z) : 0 < h -> (1 <= B < L)%Z -> params_ok h (IZR B) (IZR L).
Proof.
  intros Hh H. unfold params_ok. repeat split.
  - exact Hh.
  - apply IZR_lt; lia.
  - apply IZR_lt; lia.
  - apply k1_pos_int; exact H.
Qed.

(* ------------------------------------------------------------------ *)
(* G: yielding outputs, branch y < L                                   *)
(* ------------------------------------------------------------------ *)

(* W y = -ln((L-y)/L) and U y = W y ^ (1/k1): in the coordinate U the income curve is a
   translation at constant speed ln2/(k2*h)  (lemma U_G). *)
Definition W (y L : R) : R := - ln ((L - y) / L).
Definition U (y B L : R) : R := pow0 (W y L) (1 / k1 B L).

Lemma Gexp_eq y x h B L :
  Gexp y x h B L = - pow0 (x * ln 2 / (k2 B L * h) + U y B L) (k1 B L).
Proof. reflexivity. Qed.

Lemma step_nonneg c h x : 0 < c -> 0 < h -> 0 <= x -> 0 <= x * ln 2 / (c * h).
Proof.
  intros Hc Hh Hx. pose proof ln2_pos. apply div_nonneg; [apply Rmult_lt_0_compat; lra|].
  apply Rmult_le_pos; lra.
Qed.

Lemma step_mono c h x x' : 0 < c -> 0 < h -> x <= x' -> x * ln 2 / (c * h) <= x' * ln 2 / (c * h).
Proof.
  intros Hc Hh Hx. pose proof ln2_pos.
  assert (0 <= (x' - x) * ln 2 / (c * h)) as H1 by (apply step_nonneg; lra).
  unfold Rdiv in *. lra.
Qed.

Lemma ratio_bounds y L : 0 <= y -> y < L -> 0 < (L - y) / L /\ (L - y) / L <= 1.
Proof.
  intros Hy HL. replace ((L - y) / L) with (1 - y / L) by (field; lra).
  pose proof (div_nonneg y L ltac:(lra) Hy). pose proof (div_lt_1 y L ltac:(lra) HL). lra.
Qed.

Lemma W_nonneg y L : 0 <= y -> y < L -> 0 <= W y L.
Proof.
  intros Hy HL. destruct (ratio_bounds y L Hy HL) as [H0 H1].
  pose proof (ln_nonpos _ H0 H1). unfold W. lra.
Qed.

Lemma W_mono y1 y2 L : 0 <= y1 -> y1 <= y2 -> y2 < L -> W y1 L <= W y2 L.
Proof.
  intros H1 H12 H2. unfold W. apply Ropp_le_contravar. apply ln_le_mono.
  - apply ratio_bounds; lra.
  - unfold Rdiv. apply Rmult_le_compat_r; [left; apply Rinv_0_lt_compat; lra | lra].
Qed.

Lemma W_0 L : 0 < L -> W 0 L = 0.
Proof. intros HL. unfold W. replace ((L - 0) / L) with 1 by (field; lra). rewrite ln_1. ring. Qed.

Lemma exp_neg_W y L : 0 <= y -> y < L -> exp (- W y L) = (L - y) / L.
Proof.
  intros Hy HL. unfold W. rewrite Ropp_involutive. apply exp_ln. apply ratio_bounds; assumption.
Qed.

Lemma U_nonneg y B L : 0 <= U y B L.
Proof. apply pow0_nonneg. Qed.

Lemma U_mono y1 y2 B L : 0 < k1 B L -> 0 <= y1 -> y1 <= y2 -> y2 < L -> U y1 B L <= U y2 B L.
Proof.
  intros Hk H1 H12 H2. unfold U. apply pow0_mono.
  - apply W_nonneg; lra.
  - apply W_mono; assumption.
  - apply Rdiv_lt_0_compat; lra.
Qed.

Lemma G_lt_eq y x h B L : y < L -> G y x h B L = L - L * exp (Gexp y x h B L).
Proof. intros H. unfold G. destruct (Rlt_dec y L); [ring | contradiction]. Qed.

Lemma Gexp_le y x h B L :
  params_ok h B L -> 0 <= y -> y < L -> 0 <= x -> Gexp y x h B L <= - W y L.
Proof.
  intros (Hh & HB & HBL & Hk) Hy HL Hx. pose proof (k2_pos B L HB HBL) as Hc.
  rewrite Gexp_eq. apply Ropp_le_contravar.
  apply Rle_trans with (pow0 (U y B L) (k1 B L)).
  - right. symmetry. unfold U. apply pow0_inv_r; [apply W_nonneg; assumption | lra].
  - pose proof (step_nonneg (k2 B L) h x Hc Hh Hx). pose proof (U_nonneg y B L).
    apply pow0_mono; lra.
Qed.

Lemma G_lt_bounds y x h B L :
  params_ok h B L -> 0 <= y -> y < L -> 0 <= x -> y <= G y x h B L /\ G y x h B L < L.
Proof.
  intros P Hy HL Hx. rewrite G_lt_eq by exact HL.
  pose proof (exp_le _ _ (Gexp_le y x h B L P Hy HL Hx)) as H1.
  rewrite exp_neg_W in H1 by assumption.
  pose proof (exp_pos (Gexp y x h B L)) as H0. set (e := exp (Gexp y x h B L)) in *.
  assert (L * e <= L * ((L - y) / L)) as H2 by (apply Rmult_le_compat_l; lra).
  replace (L * ((L - y) / L)) with (L - y) in H2 by (field; lra).
  assert (0 < L * e) by (apply Rmult_lt_0_compat; lra). lra.
Qed.

Lemma W_G y x h B L : 0 < L -> y < L -> W (G y x h B L) L = - Gexp y x h B L.
Proof.
  intros H0 HL. unfold W. rewrite G_lt_eq by exact HL.
  replace ((L - (L - L * exp (Gexp y x h B L))) / L) with (exp (Gexp y x h B L)) by (field; lra).
  rewrite ln_exp. reflexivity.
Qed.

Lemma U_G y x h B L :
  params_ok h B L -> 0 <= y -> y < L -> 0 <= x ->
  U (G y x h B L) B L = x * ln 2 / (k2 B L * h) + U y B L.
Proof.
  intros (Hh & HB & HBL & Hk) Hy HL Hx. pose proof (k2_pos B L HB HBL) as Hc.
  unfold U at 1. rewrite W_G by lra. rewrite Gexp_eq, Ropp_involutive.
  pose proof (step_nonneg (k2 B L) h x Hc Hh Hx). pose proof (U_nonneg y B L).
  apply pow0_inv_l; lra.
Qed.

Lemma G_lt_semigroup y x1 x2 h B L :
  params_ok h B L -> 0 <= y -> y < L -> 0 <= x1 -> 0 <= x2 ->
  G (G y x1 h B L) x2 h B L = G y (x1 + x2) h B L.
Proof.
  intros P Hy HL H1 H2. destruct (G_lt_bounds y x1 h B L P Hy HL H1) as [Hy1 Hy2].
  rewrite (G_lt_eq (G y x1 h B L) x2) by exact Hy2.
  rewrite (G_lt_eq y (x1 + x2)) by exact HL.
  rewrite (Gexp_eq (G y x1 h B L)), (Gexp_eq y (x1 + x2)).
  rewrite U_G by assumption.
  replace (x2 * ln 2 / (k2 B L * h) + (x1 * ln 2 / (k2 B L * h) + U y B L))
    with ((x1 + x2) * ln 2 / (k2 B L * h) + U y B L) by (unfold Rdiv; ring).
  reflexivity.
Qed.

Lemma G_lt_x0 y h B L : params_ok h B L -> 0 <= y -> y < L -> G y 0 h B L = y.
Proof.
  intros (Hh & HB & HBL & Hk) Hy HL. rewrite G_lt_eq by exact HL. rewrite Gexp_eq.
  replace (0 * ln 2 / (k2 B L * h) + U y B L) with (U y B L) by (unfold Rdiv; ring).
  unfold U. rewrite pow0_inv_r by (try apply W_nonneg; lra).
  rewrite exp_neg_W by assumption. field. lra.
Qed.

Lemma G_lt_mono_x y x x' h B L :
  params_ok h B L -> 0 <= y -> y < L -> 0 <= x -> x <= x' -> G y x h B L <= G y x' h B L.
Proof.
  intros (Hh & HB & HBL & Hk) Hy HL Hx Hxx. pose proof (k2_pos B L HB HBL) as Hc.
  rewrite !G_lt_eq by exact HL. rewrite !Gexp_eq.
  pose proof (step_nonneg (k2 B L) h x Hc Hh Hx). pose proof (U_nonneg y B L).
  pose proof (step_mono (k2 B L) h x x' Hc Hh Hxx).
  assert (pow0 (x * ln 2 / (k2 B L * h) + U y B L) (k1 B L)
          <= pow0 (x' * ln 2 / (k2 B L * h) + U y B L) (k1 B L)) as Hp by (apply pow0_mono; lra).
  apply Ropp_le_contravar, exp_le in Hp.
  apply (Rmult_le_compat_l L) in Hp; lra.
Qed.

Lemma G_lt_mono_y y1 y2 x h B L :
  params_ok h B L -> 0 <= y1 -> y1 <= y2 -> y2 < L -> 0 <= x -> G y1 x h B L <= G y2 x h B L.
Proof.
  intros (Hh & HB & HBL & Hk) H1 H12 H2 Hx. pose proof (k2_pos B L HB HBL) as Hc.
  rewrite !G_lt_eq by lra. rewrite !Gexp_eq.
  pose proof (step_nonneg (k2 B L) h x Hc Hh Hx). pose proof (U_nonneg y1 B L).
  pose proof (U_mono y1 y2 B L Hk H1 H12 H2).
  assert (pow0 (x * ln 2 / (k2 B L * h) + U y1 B L) (k1 B L)
          <= pow0 (x * ln 2 / (k2 B L * h) + U y2 B L) (k1 B L)) as Hp by (apply pow0_mono; lra).
  apply Ropp_le_contravar, exp_le in Hp.
  apply (Rmult_le_compat_l L) in Hp; lra.
Qed.

(* from zero, the income base is reached after exactly one half-life *)
Lemma G_zero_half h B L : params_ok h B L -> G 0 h h B L = B.
Proof.
  intros (Hh & HB & HBL & Hk). pose proof ln2_pos as H2.
  rewrite G_lt_eq by lra. rewrite Gexp_eq.
  assert (0 < B / L) by (apply Rdiv_lt_0_compat; lra).
  assert (B / L < 1) by (apply div_lt_1; lra).
  assert (ln (1 - B / L) < 0) as Hv by (apply ln_neg; lra).
  assert (h * ln 2 / (k2 B L * h) = pow0 (- ln (1 - B / L)) (1 / k1 B L)) as E.
  { unfold k2. destruct (Rlt_dec B L) as [_|n]; [|contradiction].
    assert (0 < pow0 (- ln (1 - B / L)) (1 / k1 B L)) as Hq by (apply pow0_pos; lra).
    set (q := pow0 (- ln (1 - B / L)) (1 / k1 B L)) in *. field. repeat split; lra. }
  rewrite E. unfold U. rewrite W_0 by lra. rewrite pow0_0, Rplus_0_r.
  rewrite pow0_inv_r by lra. rewrite Ropp_involutive, exp_ln by lra. field. lra.
Qed.

(* ------------------------------------------------------------------ *)
(* G: branches y > L and y = L                                         *)
(* ------------------------------------------------------------------ *)

Lemma G_gt_eq y x h B L : L < y -> G y x h B L = (y - L) * exp (- x * ln 2 / h) + L.
Proof.
  intros H. unfold G. destruct (Rlt_dec y L); [lra|]. destruct (Rlt_dec L y); [reflexivity | contradiction].
Qed.

Lemma G_eq_L x h B L : G L x h B L = L.
Proof. unfold G. destruct (Rlt_dec L L); [lra|]. destruct (Rlt_dec L L); [lra | reflexivity]. Qed.

Lemma G_gt_F y x h B L : L < y -> G y x h B L = F (y - L) x h + L.
Proof. intros H. rewrite G_gt_eq by exact H. reflexivity. Qed.

Lemma G_gt_bounds y x h B L : 0 < h -> 0 <= x -> L < y -> L < G y x h B L /\ G y x h B L <= y.
Proof.
  intros Hh Hx Hy. rewrite G_gt_F by exact Hy.
  pose proof (F_le (y - L) x h ltac:(lra) Hx Hh).
  assert (0 < F (y - L) x h) by (unfold F; apply Rmult_lt_0_compat; [lra | apply exp_pos]). lra.
Qed.

Lemma G_gt_semigroup y x1 x2 h B L :
  0 < h -> 0 <= x1 -> L < y -> G (G y x1 h B L) x2 h B L = G y (x1 + x2) h B L.
Proof.
  intros Hh H1 Hy. destruct (G_gt_bounds y x1 h B L Hh H1 Hy) as [Hg _].
  rewrite (G_gt_F (G y x1 h B L)) by exact Hg. rewrite !G_gt_F by exact Hy.
  replace (F (y - L) x1 h + L - L) with (F (y - L) x1 h) by ring.
  rewrite F_semigroup by exact Hh. reflexivity.
Qed.

(* ------------------------------------------------------------------ *)
(* G: all branches together                                            *)
(* ------------------------------------------------------------------ *)

Lemma G_x0 y h B L : params_ok h B L -> 0 <= y -> G y 0 h B L = y.
Proof.
  intros P Hy. destruct (Rtotal_order y L) as [H|[H|H]].
  - apply G_lt_x0; assumption.
  - subst y. apply G_eq_L.
  - rewrite G_gt_F by exact H. rewrite F_zero. ring.
Qed.

Lemma G_bounds y x h B L :
  params_ok h B L -> 0 <= y -> 0 <= x ->
  (y <= L -> y <= G y x h B L /\ G y x h B L <= L) /\
  (L <= y -> L <= G y x h B L /\ G y x h B L <= y).
Proof.
  intros P Hy Hx. assert (0 < h) as Hh by apply P.
  destruct (Rtotal_order y L) as [H|[H|H]].
  - destruct (G_lt_bounds y x h B L P Hy H Hx). split; intros; lra.
  - subst y. rewrite G_eq_L. split; intros; lra.
  - destruct (G_gt_bounds y x h B L Hh Hx H). split; intros; lra.
Qed.

(* strictly below the limit stays strictly below, strictly above stays strictly above *)
Lemma G_branch_stable y x h B L :
  params_ok h B L -> 0 <= y -> 0 <= x ->
  (y < L -> G y x h B L < L) /\ (L < y -> L < G y x h B L).
Proof.
  intros P Hy Hx. assert (0 < h) as Hh by apply P. split; intros H.
  - apply G_lt_bounds; assumption.
  - apply G_gt_bounds; assumption.
Qed.

(* moves monotonically toward the limit as time passes *)
Lemma G_mono_x y x x' h B L :
  params_ok h B L -> 0 <= y -> 0 <= x -> x <= x' ->
  (y <= L -> G y x h B L <= G y x' h B L) /\ (L <= y -> G y x' h B L <= G y x h B L).
Proof.
  intros P Hy Hx Hxx. assert (0 < h) as Hh by apply P.
  destruct (Rtotal_order y L) as [H|[H|H]].
  - split; intros; [apply G_lt_mono_x; assumption | lra].
  - subst y. rewrite !G_eq_L. split; intros; lra.
  - split; intros; [lra|]. rewrite !G_gt_F by exact H.
    pose proof (F_anti (y - L) x x' h ltac:(lra) Hh Hxx). lra.
Qed.

Lemma G_mono_y y1 y2 x h B L :
  params_ok h B L -> 0 <= y1 -> y1 <= y2 -> 0 <= x -> G y1 x h B L <= G y2 x h B L.
Proof.
  intros P H1 H12 Hx. assert (0 < h) as Hh by apply P.
  destruct (Rlt_dec y2 L) as [H2|H2].
  - apply G_lt_mono_y; assumption.
  - destruct (Rle_dec y1 L) as [H3|H3].
    + destruct (G_bounds y1 x h B L P H1 Hx) as [A _].
      destruct (G_bounds y2 x h B L P ltac:(lra) Hx) as [_ C].
      specialize (A H3). specialize (C ltac:(lra)). lra.
    + rewrite !G_gt_F by lra. pose proof (F_mono_y (y1 - L) (y2 - L) x h ltac:(lra)). lra.
Qed.

Lemma G_semigroup y x1 x2 h B L :
  params_ok h B L -> 0 <= y -> 0 <= x1 -> 0 <= x2 ->
  G (G y x1 h B L) x2 h B L = G y (x1 + x2) h B L.
Proof.
  intros P Hy H1 H2. assert (0 < h) as Hh by apply P.
  destruct (Rtotal_order y L) as [H|[H|H]].
  - apply G_lt_semigroup; assumption.
  - subst y. rewrite !G_eq_L. reflexivity.
  - apply G_gt_semigroup; assumption.
Qed.

(* ------------------------------------------------------------------ *)
(* Gz: g with the code's math.Floor placements                         *)
(* ------------------------------------------------------------------ *)

(* in every branch the code computes floor(G - L) + L *)
Lemma Gz_eq y x h B L : Gz y x h B L = Rfloor (G y x h B L - L) + L.
Proof.
  unfold Gz, G. destruct (Rlt_dec y L).
  - f_equal. f_equal. ring.
  - destruct (Rlt_dec L y).
    + f_equal. f_equal. ring.
    + replace (L - L) with 0 by ring. rewrite (Rfloor_IZR 0). ring.
Qed.

Lemma Gz_within_one y x h B L : G y x h B L - 1 < Gz y x h B L /\ Gz y x h B L <= G y x h B L.
Proof.
  rewrite Gz_eq. pose proof (Rfloor_le (G y x h B L - L)). pose proof (Rfloor_gt (G y x h B L - L)). lra.
Qed.

Lemma Gz_le_G y x h B L : Gz y x h B L <= G y x h B L.
Proof. apply Gz_within_one. Qed.

Lemma Gz_integer y x h B (L : Z) : exists z : Z, Gz y x h B (IZR L) = IZR z.
Proof. rewrite Gz_eq. unfold Rfloor. eexists. rewrite <- plus_IZR. reflexivity. Qed.

Lemma Gz_mono_y y1 y2 x h B L :
  params_ok h B L -> 0 <= y1 -> y1 <= y2 -> 0 <= x -> Gz y1 x h B L <= Gz y2 x h B L.
Proof.
  intros P H1 H12 Hx. rewrite !Gz_eq. apply Rplus_le_compat_r, Rfloor_mono.
  pose proof (G_mono_y y1 y2 x h B L P H1 H12 Hx). lra.
Qed.

Lemma Gz_mono_x y x x' h B L :
  params_ok h B L -> 0 <= y -> 0 <= x -> x <= x' ->
  (y <= L -> Gz y x h B L <= Gz y x' h B L) /\ (L <= y -> Gz y x' h B L <= Gz y x h B L).
Proof.
  intros P Hy Hx Hxx. destruct (G_mono_x y x x' h B L P Hy Hx Hxx) as [A C].
  rewrite !Gz_eq. split; intros H; apply Rplus_le_compat_r, Rfloor_mono.
  - specialize (A H). lra.
  - specialize (C H). lra.
Qed.

(* real amounts and limit: between the initial value and the limit, within one unit *)
Lemma Gz_bounds y x h B L :
  params_ok h B L -> 0 <= y -> 0 <= x ->
  (y <= L -> y - 1 < Gz y x h B L /\ Gz y x h B L <= L) /\
  (L <= y -> L <= Gz y x h B L /\ Gz y x h B L <= y).
Proof.
  intros P Hy Hx. destruct (G_bounds y x h B L P Hy Hx) as [A C].
  destruct (Gz_within_one y x h B L) as [D E]. split; intros H.
  - specialize (A H). lra.
  - specialize (C H). split; [|lra]. rewrite Gz_eq.
    pose proof (Rfloor_nonneg (G y x h B L - L) ltac:(lra)). lra.
Qed.

(* integer amounts and limit (the code's uint64): exactly between the two *)
Lemma Gz_bounds_int (y L : Z) x h B :
  params_ok h B (IZR L) -> (0 <= y)%Z -> 0 <= x ->
  ((y <= L)%Z -> IZR y <= Gz (IZR y) x h B (IZR L) /\ Gz (IZR y) x h B (IZR L) <= IZR L) /\
  ((L <= y)%Z -> IZR L <= Gz (IZR y) x h B (IZR L) /\ Gz (IZR y) x h B (IZR L) <= IZR y).
Proof.
  intros P Hy Hx. assert (0 <= IZR y) as Hy' by (apply IZR_le; exact Hy).
  destruct (Gz_bounds (IZR y) x h B (IZR L) P Hy' Hx) as [A C]. split; intros H.
  - apply IZR_le in H. specialize (A H). split; [|lra].
    destruct (G_bounds (IZR y) x h B (IZR L) P Hy' Hx) as [A' _]. specialize (A' H).
    rewrite Gz_eq.
    pose proof (Rfloor_mono (IZR y - IZR L) (G (IZR y) x h B (IZR L) - IZR L) ltac:(lra)) as M.
    rewrite <- minus_IZR, Rfloor_IZR, minus_IZR in M. lra.
  - apply IZR_le in H. exact (C H).
Qed.

Lemma Gz_nonneg y x h B (L : Z) :
  params_ok h B (IZR L) -> 0 <= y -> 0 <= x -> 0 <= Gz y x h B (IZR L).
Proof.
  intros P Hy Hx. assert (0 < IZR L) as HL by (destruct P as (_ & ? & ? & _); lra).
  destruct (G_bounds y x h B (IZR L) P Hy Hx) as [A C].
  assert (0 <= G y x h B (IZR L)) as HG.
  { destruct (Rle_dec y (IZR L)) as [H|H]; [specialize (A H) | specialize (C ltac:(lra))]; lra. }
  rewrite Gz_eq.
  pose proof (Rfloor_mono (IZR (- L)) (G y x h B (IZR L) - IZR L)) as M.
  rewrite Rfloor_IZR, opp_IZR in M. specialize (M ltac:(lra)). lra.
Qed.

Lemma Gz_x0_int (y L : Z) h B :
  params_ok h B (IZR L) -> (0 <= y)%Z -> Gz (IZR y) 0 h B (IZR L) = IZR y.
Proof.
  intros P Hy. rewrite Gz_eq, G_x0 by (try apply IZR_le; assumption).
  rewrite <- minus_IZR, Rfloor_IZR, minus_IZR. ring.
Qed.

Lemma Gz_zero_half_int h (B L : Z) :
  params_ok h (IZR B) (IZR L) -> Gz 0 h h (IZR B) (IZR L) = IZR B.
Proof.
  intros P. rewrite Gz_eq, G_zero_half by exact P.
  rewrite <- minus_IZR, Rfloor_IZR, minus_IZR. ring.
Qed.

(* no gain from splitting an interval: valuing over x1, truncating, and valuing the result
   over x2 never gives more than valuing once over x1 + x2 *)
Lemma Gz_no_gain_strong y x1 x2 h B L :
  params_ok h B L -> 0 <= y -> 0 <= x1 -> 0 <= x2 -> 0 <= Gz y x1 h B L ->
  Gz (Gz y x1 h B L) x2 h B L <= Gz y (x1 + x2) h B L.
Proof.
  intros P Hy H1 H2 Hz.
  rewrite (Gz_eq (Gz y x1 h B L) x2), (Gz_eq y (x1 + x2)).
  apply Rplus_le_compat_r, Rfloor_mono.
  rewrite <- (G_semigroup y x1 x2 h B L P Hy H1 H2).
  pose proof (G_mono_y (Gz y x1 h B L) (G y x1 h B L) x2 h B L P Hz (Gz_le_G _ _ _ _ _) H2). lra.
Qed.

Lemma Gz_no_gain_strong_int y x1 x2 h B (L : Z) :
  params_ok h B (IZR L) -> 0 <= y -> 0 <= x1 -> 0 <= x2 ->
  Gz (Gz y x1 h B (IZR L)) x2 h B (IZR L) <= Gz y (x1 + x2) h B (IZR L).
Proof.
  intros P Hy H1 H2. apply Gz_no_gain_strong; try assumption. apply Gz_nonneg; assumption.
Qed.

Lemma Gz_no_gain y x1 x2 h B (L : Z) :
  params_ok h B (IZR L) -> 0 <= y -> 0 <= x1 -> 0 <= x2 ->
  Gz (Gz y x1 h B (IZR L)) x2 h B (IZR L) <= Gz y (x1 + x2) h B (IZR L) + 1.
Proof. intros P Hy H1 H2. pose proof (Gz_no_gain_strong_int y x1 x2 h B L P Hy H1 H2). lra. Qed.

(* ------------------------------------------------------------------ *)
(* Value: depends on the elapsed time only                             *)
(* ------------------------------------------------------------------ *)

Lemma value_at_shift yielding y t0 t d h B L :
  value_at yielding y (t0 + d) (t + d) h B L = value_at yielding y t0 t h B L.
Proof.
  unfold value_at. replace (t + d - (t0 + d))%Z with (t - t0)%Z by lia.
  destruct (Z.eq_dec (t + d) (t0 + d)), (Z.eq_dec t t0); try lia; reflexivity.
Qed.

(* the early return of the code at currentTimestamp = timestamp agrees with the formulas,
   so Value is a function of the elapsed time alone *)
Lemma value_at_elapsed yielding (y L : Z) t0 t h B :
  params_ok h B (IZR L) -> (0 <= y)%Z ->
  value_at yielding (IZR y) t0 t h B (IZR L) =
  if yielding then Gz (IZR y) (IZR (t - t0)) h B (IZR L) else Fz (IZR y) (IZR (t - t0)) h.
Proof.
  intros P Hy. unfold value_at. destruct (Z.eq_dec t t0) as [E|E]; [|reflexivity].
  subst t. rewrite Z.sub_diag. destruct yielding.
  - symmetry. apply Gz_x0_int; assumption.
  - symmetry. apply Fz_zero.
Qed.

Lemma Fz_half y h : 0 < h -> Fz y h h = Rfloor (y / 2).
Proof. intros Hh. unfold Fz. rewrite F_half by exact Hh. reflexivity. Qed.
