(* Supply_lemmas.v — C01 at the level of a whole block: a block creates, in exact arithmetic,
   no more value than the outputs its ordinary transactions consume are worth at the block's
   timestamp (plus the genesis amount for a first block).

   Corollaries of proofs/Accept_lemmas.v:
     1. adopted blocks (verify_block): the consumed outputs are all found in the registry [ur c]
        the verifier consults;
     2. produced blocks (validate): the consumed outputs of the kept transactions are found in the
        successive registries of the production loop ([run_kept]);
     3. the first block (genesis production): the same up to the genesis amount.

   verify_block reads of a reward transaction only its first output ([reward_value]); that a
   transaction without inputs carries exactly one output is checked by the decoder
   (model/WireDec.v [tx_shape], go: transaction.go:66-71), not by verifyBlock. The statement that
   counts every output of the reward therefore has the hypothesis [reward_single] on the block's
   transactions, which every decoded block satisfies ([decoded_block_reward_single]); without it
   the statement fails ([block_conservation_adopted_unshaped_refuted]). *)
From Coq Require Import Lia ZArith NArith.
From RV Require Import model.Base model.Ledger model.Registry model.Chain model.Sync model.Pool.
From RV Require Import proofs.Pool_lemmas proofs.Sync_lemmas proofs.Chain_verify proofs.Ledger_fee
                       proofs.Accept_lemmas.
From RV Require model.WireDec proofs.Wire_lemmas proofs.Ledger_update proofs.Spend_lemmas.
Local Open Scope N_scope.

(* ------------------------------------------------------------------ vocabulary *)

(* what the transactions [l] create: the exact sum of all their outputs *)
Definition created (l : list tx) : N := sumN (map o_val (flat_map outs l)).

(* what the outputs [uss] (one list per transaction) are worth at [ts], exactly *)
Definition worth (value_fn : N -> bool -> Z -> N) (ts : Z) (uss : list (list utxo)) : N :=
  sumN (map (fun u => utxo_value value_fn u ts) (List.concat uss)).

(* a transaction without inputs has at most one output (the decoder's shape check) *)
Definition reward_single (t : tx) : Prop := is_reward t = true -> (length (outs t) <= 1)%nat.

Lemma created_nil : created [] = 0.
Proof. reflexivity. Qed.

Lemma created_cons (t : tx) (l : list tx) :
  created (t :: l) = sumN (map o_val (outs t)) + created l.
Proof. unfold created. cbn [flat_map]. rewrite map_app, sumN_app. reflexivity. Qed.

Lemma created_app (l1 l2 : list tx) : created (l1 ++ l2) = created l1 + created l2.
Proof.
  induction l1 as [|t r IH].
  - cbn [app]. rewrite created_nil. lia.
  - rewrite <- app_comm_cons, !created_cons, IH. lia.
Qed.

Lemma created_filter (p : tx -> bool) (l : list tx) :
  created l = created (filter p l) + created (filter (fun t => negb (p t)) l).
Proof.
  induction l as [|t r IH].
  - cbn [filter]. rewrite created_nil. lia.
  - cbn [filter]. destruct (p t); cbn [negb]; rewrite !created_cons, IH; lia.
Qed.

Lemma created_reward_single (rt : tx) :
  (length (outs rt) <= 1)%nat -> created [rt] = reward_value rt.
Proof.
  intros Hl. rewrite created_cons, created_nil. unfold reward_value.
  destruct (outs rt) as [|o [|o2 r]].
  - cbn [map]. rewrite sumN_nil. lia.
  - cbn [map]. rewrite sumN_cons, sumN_nil. lia.
  - cbn [length] in Hl. lia.
Qed.

Lemma worth_nil (value_fn : N -> bool -> Z -> N) (ts : Z) : worth value_fn ts [] = 0.
Proof. reflexivity. Qed.

Lemma worth_cons (value_fn : N -> bool -> Z -> N) (ts : Z) (us : list utxo) (uss : list (list utxo)) :
  worth value_fn ts (us :: uss) =
  sumN (map (fun u => utxo_value value_fn u ts) us) + worth value_fn ts uss.
Proof. unfold worth. cbn [List.concat]. rewrite map_app, sumN_app. reflexivity. Qed.

Lemma Forall2_len {A B} (R : A -> B -> Prop) (l : list A) (m : list B) :
  Forall2 R l m -> length l = length m.
Proof.
  intros HF. induction HF as [|a b l m _ _ IH]; [reflexivity|]. cbn [length]. rewrite IH. reflexivity.
Qed.

(* the one reward of a block that has exactly one *)
Lemma sole_reward (l : list tx) (rt : tx) :
  length (filter is_reward l) = 1%nat -> In rt l -> is_reward rt = true ->
  filter is_reward l = [rt].
Proof.
  intros Hlen Hin Hr.
  assert (Hf : In rt (filter is_reward l)) by (apply filter_In; split; assumption).
  destruct (filter is_reward l) as [|x [|y r]]; try discriminate Hlen.
  destruct Hf as [Hx|[]]. subst x. reflexivity.
Qed.

(* ---- the reward shape is what the decoder enforces ---- *)

Lemma wf_shape_reward_single (t : tx) :
  Wire_lemmas.wf_shape (t_ins t) (t_outs t) -> reward_single t.
Proof.
  intros [_ Hs] Hr.
  assert (E : elems (t_ins t) = []).
  { unfold is_reward, ins in Hr. revert Hr.
    destruct (elems (t_ins t)) as [|i r]; [intros _; reflexivity|discriminate]. }
  unfold outs. rewrite (Hs E). apply le_n.
Qed.

Lemma tx_shape_reward_single (t : tx) :
  WireDec.tx_shape (t_ins t) (t_outs t) = Ok tt -> reward_single t.
Proof. intros Hs. apply wf_shape_reward_single, Wire_lemmas.tx_shape_iff, Hs. Qed.

Lemma wf_block_reward_single (on_curve : string -> bool) (Hb : list N -> list N) (b : block) :
  Wire_lemmas.wf_block on_curve Hb b -> Forall reward_single (txs b).
Proof.
  intros [_ [_ [_ HF]]]. eapply Forall_impl; [|exact HF].
  intros t [_ [_ Hsh]]. exact (wf_shape_reward_single t Hsh).
Qed.

(* every block that came over the wire *)
Lemma decoded_block_reward_single (on_curve : string -> bool) (Hb : list N -> list N)
      (j : Json.json) (b : block) :
  WireDec.unmarshal_block on_curve Hb j = Ok b -> Forall reward_single (txs b).
Proof.
  intros Hd. exact (wf_block_reward_single on_curve Hb b (Wire_lemmas.C15_decode_wf_block _ _ _ _ Hd)).
Qed.

Lemma min_fees (fee : N) (fees : list N) :
  Forall (fun f => fee <= f) fees -> N.of_nat (length fees) * fee <= sumN fees.
Proof.
  intros HF. induction HF as [|f r Hf _ IH].
  - cbn [length]. rewrite sumN_nil. lia.
  - cbn [length]. rewrite Nat2N.inj_succ, N.mul_succ_l, sumN_cons. lia.
Qed.

Section Supply.
  Variable value_fn : N -> bool -> Z -> N.
  Variable addr_of : string -> string.
  Variable sig_ok : input -> bool.
  Variable H : block -> hash.
  Variable gen_id : slice input -> slice output -> Z -> string.
  Variable S : settings.
  Variable validator : string.
  (* a lemma takes exactly the oracles its statement names *)
  Set Default Proof Using "Type".

  (* lia generalises over the whole context: drop the oracles the goal does not name *)
  Local Ltac slia :=
    try clear validator; try clear gen_id; try clear H; try clear sig_ok;
    try clear addr_of; try clear value_fn; lia.

  Local Notation CF := (calc_fee value_fn addr_of).
  Local Notation VBLOCK := (verify_block value_fn addr_of sig_ok S).
  Local Notation VALIDATE := (validate value_fn addr_of sig_ok H gen_id S validator).
  Local Notation GREEDY := (greedy value_fn addr_of sig_ok S).
  Local Notation GFEES := (greedy_fees value_fn addr_of sig_ok S).
  Local Notation SPENDS := (spends addr_of).
  Local Notation LEFTOVER := (leftover value_fn addr_of).
  Local Notation KEPT_OK := (kept_ok value_fn addr_of sig_ok S).
  Local Notation WORTH := (worth value_fn).

  (* ============================================================ 1. adopted blocks *)

  (* fees computed by CalculateFee against one registry: what the transactions pay out plus
     all the fees is at most what the outputs they consume there are worth *)
  Lemma fees_conservation (reg : ureg) (ts : Z) : forall (l : list tx) (fees : list N),
    Forall2 (fun t f => CF (s_fee S) reg t ts = Ok f) l fees ->
    exists uss : list (list utxo),
      Forall2 (fun t us => SPENDS reg t us) l uss /\
      created l + sumN fees <= WORTH ts uss /\
      Forall (fun f => s_fee S <= f) fees.
  Proof.
    intros l fees HF. induction HF as [|t f l fees Hc _ IH].
    - exists []. split; [constructor|]. split; [|constructor].
      rewrite created_nil, sumN_nil, worth_nil. slia.
    - destruct IH as [uss [H1 [H2 H3]]].
      destruct (calc_fee_leftover _ _ _ _ _ _ _ Hc) as [[us [Hs Hb]] Hfee].
      exists (us :: uss). split; [constructor; assumption|].
      split; [|constructor; assumption].
      rewrite created_cons, sumN_cons, worth_cons. slia.
  Qed.

  (* the strong form: with the fees *)
  Lemma block_conservation_adopted_fees (c : cstate) (b : block) (prev_ts now : Z) :
    VBLOCK c b prev_ts now = Ok tt ->
    exists (uss : list (list utxo)) (fees : list N) (rt : tx),
      Forall2 (fun t us => SPENDS (ur c) t us) (ordinary b) uss /\
      In rt (txs b) /\ is_reward rt = true /\ filter is_reward (txs b) = [rt] /\
      Forall (fun f => s_fee S <= f) fees /\ length fees = length (ordinary b) /\
      created (ordinary b) + sumN fees <= WORTH (b_ts b) uss /\
      reward_value rt <= sumN fees.
  Proof.
    intros Hv. apply verify_block_sound in Hv.
    destruct Hv as [_ [_ [Hlen [_ [fees [rt [HF2 [Hin [Hisr Hle]]]]]]]]].
    fold (ordinary b) in HF2.
    destruct (fees_conservation _ _ _ _ HF2) as [uss [H1 [H2 H3]]].
    exists uss, fees, rt.
    split; [exact H1|]. split; [exact Hin|]. split; [exact Hisr|].
    split; [exact (sole_reward _ _ Hlen Hin Hisr)|]. split; [exact H3|].
    split; [symmetry; exact (Forall2_len _ _ _ HF2)|]. split; [exact H2|exact Hle].
  Qed.

  (* without any hypothesis on the shape of the reward: the reward counted as verifyBlock reads
     it, i.e. by its first output *)
  Lemma block_conservation_adopted_reward (c : cstate) (b : block) (prev_ts now : Z) :
    VBLOCK c b prev_ts now = Ok tt ->
    exists (uss : list (list utxo)) (rt : tx),
      Forall2 (fun t us => SPENDS (ur c) t us) (ordinary b) uss /\
      In rt (txs b) /\ is_reward rt = true /\
      length (filter is_reward (txs b)) = 1%nat /\
      created (ordinary b) + reward_value rt <= WORTH (b_ts b) uss /\
      reward_value rt <= WORTH (b_ts b) uss - created (ordinary b) /\
      created (ordinary b) + N.of_nat (length (ordinary b)) * s_fee S <= WORTH (b_ts b) uss.
  Proof.
    intros Hv. destruct (block_conservation_adopted_fees _ _ _ _ Hv)
      as [uss [fees [rt [H1 [Hin [Hisr [Hsole [Hmin [Hlen [Hsum Hle]]]]]]]]]].
    exists uss, rt. split; [exact H1|]. split; [exact Hin|]. split; [exact Hisr|].
    split; [rewrite Hsole; reflexivity|].
    pose proof (min_fees _ _ Hmin) as Hm. rewrite Hlen in Hm.
    split; [slia|]. split; slia.
  Qed.

  (* the block creates no more than it consumes: every output of every transaction counted *)
  Lemma block_conservation_adopted (c : cstate) (b : block) (prev_ts now : Z) :
    VBLOCK c b prev_ts now = Ok tt ->
    Forall reward_single (txs b) ->
    exists uss : list (list utxo),
      Forall2 (fun t us => SPENDS (ur c) t us) (ordinary b) uss /\
      created (txs b) <= WORTH (b_ts b) uss.
  Proof.
    intros Hv Hshape. destruct (block_conservation_adopted_fees _ _ _ _ Hv)
      as [uss [fees [rt [H1 [Hin [Hisr [Hsole [_ [_ [Hsum Hle]]]]]]]]]].
    exists uss. split; [exact H1|].
    rewrite (created_filter is_reward (txs b)). fold (ordinary b). rewrite Hsole.
    rewrite Forall_forall in Hshape.
    rewrite (created_reward_single rt (Hshape rt Hin Hisr)). slia.
  Qed.

  (* ... and when the block is then applied to that registry (addBlock, one block later), no
     output reference is consumed twice by it: the sum on the right counts no output twice *)
  Lemma block_conservation_adopted_distinct (c : cstate) (b : block) (prev_ts now : Z) (u' : ureg) :
    VBLOCK c b prev_ts now = Ok tt ->
    Forall reward_single (txs b) ->
    update_utxos (ur c) (txs b) (b_ts b) = Ok u' ->
    Ledger_update.ids_fresh (ur c) (txs b) ->
    exists uss : list (list utxo),
      Forall2 (fun t us => SPENDS (ur c) t us) (ordinary b) uss /\
      NoDup (Ledger_update.consumed (txs b)) /\
      created (txs b) <= WORTH (b_ts b) uss.
  Proof.
    intros Hv Hshape Hu Hfresh.
    destruct (block_conservation_adopted _ _ _ _ Hv Hshape) as [uss [H1 H2]].
    exists uss. split; [exact H1|]. split; [|exact H2].
    exact (proj1 (Spend_lemmas.C02_block_no_double_spend _ _ _ _ Hu Hfresh)).
  Qed.

  (* ================================================================ 2. production *)

  (* the outputs the kept transactions consume, each list found in the running registry:
     [u] for the first transaction, then [u] updated (at [next]) by those before *)
  Inductive spends_along (next : Z) : ureg -> list tx -> list (list utxo) -> Prop :=
  | spends_along_nil : forall u, spends_along next u [] []
  | spends_along_cons : forall u t us u' l uss,
      SPENDS u t us ->
      update_utxos u [t] next = Ok u' ->
      spends_along next u' l uss ->
      spends_along next u (t :: l) (us :: uss).

  Lemma spends_along_length (next : Z) (u : ureg) (l : list tx) (uss : list (list utxo)) :
    spends_along next u l uss -> length uss = length l.
  Proof.
    intros Hs. induction Hs as [u|u t us u' l uss _ _ _ IH]; [reflexivity|].
    cbn [length]. rewrite IH. reflexivity.
  Qed.

  (* read off, transaction by transaction, in the vocabulary of C01_produced_each *)
  Lemma spends_along_prefix (next : Z) (u : ureg) (l : list tx) (uss : list (list utxo)) :
    spends_along next u l uss ->
    forall (pre : list tx) (t : tx) (post : list tx),
      l = pre ++ t :: post ->
      exists (u1 : ureg) (us : list utxo),
        run_kept next u pre = Ok u1 /\ nth_error uss (length pre) = Some us /\ SPENDS u1 t us.
  Proof.
    intros Hs. induction Hs as [u|u t0 us0 u' l uss H1 Hu _ IH]; intros pre t post E.
    - destruct pre; discriminate E.
    - destruct pre as [|x pre'].
      + cbn [app] in E. inversion E; subst t0 l. exists u, us0.
        cbn [run_kept length nth_error].
        split; [reflexivity|]. split; [reflexivity|exact H1].
      + rewrite <- app_comm_cons in E. inversion E; subst x l.
        destruct (IH pre' t post eq_refl) as [u1 [us [Hr Hrest]]].
        exists u1, us. cbn [run_kept length nth_error]. rewrite Hu.
        split; [exact Hr|exact Hrest].
  Qed.

  Lemma kept_ok_conservation (ts next : Z) (u : ureg) (l : list tx) (fs : list N) :
    KEPT_OK ts next u l fs ->
    exists uss : list (list utxo),
      spends_along next u l uss /\
      created l + sumN fs <= WORTH ts uss /\
      Forall (fun f => s_fee S <= f) fs.
  Proof.
    intros Hk. induction Hk as [u|u t f u' l fs _ _ H3 H4 Hu _ IH].
    - exists []. split; [constructor|]. split; [|constructor].
      rewrite created_nil, sumN_nil, worth_nil. slia.
    - destruct IH as [uss [Ha [Hb Hc]]]. destruct H3 as [us [Hs Hle]].
      exists (us :: uss). split; [econstructor; eassumption|].
      split; [|constructor; assumption].
      rewrite created_cons, sumN_cons, worth_cons. slia.
  Qed.

  (* any produced block, first or not *)
  Lemma block_conservation_produced_gen (n : node) (ts : Z) (perm : list nat) (n' : node)
        (d : list (string * drop)) :
    VALIDATE n ts perm = (n', Produced d) ->
    let last := last_block_ts (chain (n_c n)) in
    let next := (last + s_interval S)%Z in
    exists (kept : list tx) (u0 : ureg) (rt : tx) (b : block) (uss : list (list utxo)),
      update_utxos (ur (n_c n)) (last_block_txs (chain (n_c n))) last = Ok u0 /\
      chain (n_c n') = chain (n_c n) ++ [b] /\
      b_ts b = ts /\
      txs b = kept ++ [rt] /\
      is_reward rt = true /\
      length (outs rt) = 1%nat /\
      spends_along next u0 kept uss /\
      created kept + N.of_nat (length kept) * s_fee S <= WORTH ts uss /\
      created (txs b) <= (if (last =? 0)%Z then s_genesis S else 0) + WORTH ts uss.
  Proof.
    intros Hv last next. apply validate_produced in Hv. cbv zeta in Hv.
    fold last in Hv. fold next in Hv.
    destruct Hv as [kept [reward [u0 [E0 [Hk [Hr [_ [Hc [_ [_ [Ht [Hisr [_ [Hrv _]]]]]]]]]]]]]].
    set (tried := permute perm (elems (n_pool n))) in *.
    set (gen := (last =? 0)%Z) in *.
    pose proof (greedy_kept_ok value_fn addr_of sig_ok S last next ts tried u0) as Hko.
    rewrite <- Hk in Hko.
    destruct (kept_ok_conservation _ _ _ _ _ Hko) as [uss [Ha [Hb Hmin]]].
    pose proof (min_fees _ _ Hmin) as Hm.
    rewrite (kept_ok_length _ _ _ _ _ _ _ _ _ Hko) in Hm.
    assert (Hcr : created [reward_tx gen_id validator gen ts reward] = reward).
    { apply (created_reward_single (reward_tx gen_id validator gen ts reward)). apply le_n. }
    assert (Hrw : reward <= (if gen then s_genesis S else 0) + sumN (GFEES last next ts tried u0)).
    { rewrite Hr. apply Ledger_fee.fold_add64_le. }
    exists kept, u0. eexists. eexists. exists uss.
    split; [exact E0|]. split; [exact Hc|]. split; [reflexivity|].
    split; [exact Ht|]. split; [exact Hisr|]. split; [reflexivity|].
    split; [exact Ha|]. split; [slia|].
    rewrite Ht, created_app, Hcr. slia.
  Qed.

  (* the statement in the vocabulary of C01_produced_each ([run_kept]), any block *)
  Lemma block_conservation_produced_each (n : node) (ts : Z) (perm : list nat) (n' : node)
        (d : list (string * drop)) :
    VALIDATE n ts perm = (n', Produced d) ->
    let last := last_block_ts (chain (n_c n)) in
    let next := (last + s_interval S)%Z in
    exists (kept : list tx) (u0 : ureg) (rt : tx) (b : block) (uss : list (list utxo)),
      update_utxos (ur (n_c n)) (last_block_txs (chain (n_c n))) last = Ok u0 /\
      chain (n_c n') = chain (n_c n) ++ [b] /\
      b_ts b = ts /\
      txs b = kept ++ [rt] /\
      is_reward rt = true /\
      length uss = length kept /\
      (forall (pre : list tx) (t : tx) (post : list tx),
         kept = pre ++ t :: post ->
         exists (u1 : ureg) (us : list utxo),
           run_kept next u0 pre = Ok u1 /\ nth_error uss (length pre) = Some us /\
           SPENDS u1 t us) /\
      created (txs b) <= (if (last =? 0)%Z then s_genesis S else 0) + WORTH ts uss.
  Proof.
    intros Hv last next. apply block_conservation_produced_gen in Hv. cbv zeta in Hv.
    fold last in Hv. fold next in Hv.
    destruct Hv as [kept [u0 [rt [b [uss [E0 [Hc [Hts [Ht [Hisr [_ [Ha [_ Hle]]]]]]]]]]]]].
    exists kept, u0, rt, b, uss.
    split; [exact E0|]. split; [exact Hc|]. split; [exact Hts|]. split; [exact Ht|].
    split; [exact Hisr|]. split; [exact (spends_along_length _ _ _ _ Ha)|].
    split; [exact (spends_along_prefix _ _ _ _ Ha)|exact Hle].
  Qed.

  (* a block appended to a chain that already has a dated tip: nothing from nothing *)
  Lemma block_conservation_produced (n : node) (ts : Z) (perm : list nat) (n' : node)
        (d : list (string * drop)) :
    VALIDATE n ts perm = (n', Produced d) ->
    last_block_ts (chain (n_c n)) <> 0%Z ->
    let last := last_block_ts (chain (n_c n)) in
    let next := (last + s_interval S)%Z in
    exists (kept : list tx) (u0 : ureg) (rt : tx) (b : block) (uss : list (list utxo)),
      update_utxos (ur (n_c n)) (last_block_txs (chain (n_c n))) last = Ok u0 /\
      chain (n_c n') = chain (n_c n) ++ [b] /\
      b_ts b = ts /\
      txs b = kept ++ [rt] /\
      is_reward rt = true /\
      length uss = length kept /\
      (forall (pre : list tx) (t : tx) (post : list tx),
         kept = pre ++ t :: post ->
         exists (u1 : ureg) (us : list utxo),
           run_kept next u0 pre = Ok u1 /\ nth_error uss (length pre) = Some us /\
           SPENDS u1 t us) /\
      created (txs b) <= WORTH ts uss.
  Proof.
    intros Hv Hne last next. apply block_conservation_produced_each in Hv. cbv zeta in Hv.
    fold last in Hv. fold next in Hv.
    destruct Hv as [kept [u0 [rt [b [uss [E0 [Hc [Hts [Ht [Hisr [Hlen [Hall Hle]]]]]]]]]]]].
    exists kept, u0, rt, b, uss.
    split; [exact E0|]. split; [exact Hc|]. split; [exact Hts|]. split; [exact Ht|].
    split; [exact Hisr|]. split; [exact Hlen|]. split; [exact Hall|].
    destruct (Z.eqb_spec last 0) as [E|_]; [exfalso; exact (Hne E)|]. slia.
  Qed.

  (* the first block: the genesis amount and nothing more *)
  Lemma block_conservation_genesis (n : node) (ts : Z) (perm : list nat) (n' : node)
        (d : list (string * drop)) :
    VALIDATE n ts perm = (n', Produced d) ->
    last_block_ts (chain (n_c n)) = 0%Z ->
    let next := s_interval S in
    exists (kept : list tx) (u0 : ureg) (rt : tx) (b : block) (uss : list (list utxo)),
      update_utxos (ur (n_c n)) (last_block_txs (chain (n_c n))) 0%Z = Ok u0 /\
      chain (n_c n') = chain (n_c n) ++ [b] /\
      b_ts b = ts /\
      txs b = kept ++ [rt] /\
      is_reward rt = true /\
      length uss = length kept /\
      (forall (pre : list tx) (t : tx) (post : list tx),
         kept = pre ++ t :: post ->
         exists (u1 : ureg) (us : list utxo),
           run_kept next u0 pre = Ok u1 /\ nth_error uss (length pre) = Some us /\
           SPENDS u1 t us) /\
      created (txs b) <= WORTH ts uss + s_genesis S.
  Proof.
    intros Hv Hz next. apply block_conservation_produced_each in Hv. cbv zeta in Hv.
    rewrite Hz in Hv. rewrite Z.add_0_l in Hv. fold next in Hv.
    destruct Hv as [kept [u0 [rt [b [uss [E0 [Hc [Hts [Ht [Hisr [Hlen [Hall Hle]]]]]]]]]]]].
    exists kept, u0, rt, b, uss.
    split; [exact E0|]. split; [exact Hc|]. split; [exact Hts|]. split; [exact Ht|].
    split; [exact Hisr|]. split; [exact Hlen|]. split; [exact Hall|].
    change (0 =? 0)%Z with true in Hle. slia.
  Qed.
End Supply.

(* ------------------------------------------------------------------ *)
(* toy values for the examples of props/C01_supply.v                   *)
(* ------------------------------------------------------------------ *)
Module SupplyExample.
  Import AcceptExample.
  Local Open Scope string_scope.

  (* the block of AcceptExample with a second output of 1000 on its reward: verifyBlock reads
     the first output only *)
  Definition r_two : tx :=
    mkTx "r30" None (Some [mkOutput "V" false 10; mkOutput "V" false 1000]) 30.
  Definition b_bad : block := mkBlock (Hx e1) None None 30 (Some [t0; r_two]).

  (* a first block, produced on the empty node *)
  Definition ng : node := fst (validate vf ao so_strict Hx gid Sx "V" node_empty 10 []).
  Definition bg : block := match last_block (chain (n_c ng)) with Some b => b | None => g end.

  Lemma ex_txs_b2 : txs b2 = [t0; mkTx "r30" None (Some [mkOutput "V" false 10]) 30].
  Proof. vm_compute. reflexivity. Qed.

  Lemma ex_ordinary_b2 : ordinary b2 = [t0].
  Proof. vm_compute. reflexivity. Qed.

  Lemma ex_shape_b2 : Forall (fun t => is_reward t = true -> (length (outs t) <= 1)%nat) (txs b2).
  Proof.
    rewrite ex_txs_b2. constructor; [|constructor; [|constructor]].
    - intros Hr. vm_compute in Hr. discriminate Hr.
    - intros _. apply le_n.
  Qed.

  Lemma ex_spends_b2 : Forall2 (fun t us => spends ao (ur c0) t us) (ordinary b2) [[uA; uB]].
  Proof. rewrite ex_ordinary_b2. repeat constructor. Qed.

  (* the producer's registry: the one of [c0] updated by the (empty) last block *)
  Lemma ex_u0 : update_utxos (ur (n_c n1)) (last_block_txs (chain (n_c n1)))
                             (last_block_ts (chain (n_c n1))) = Ok reg.
  Proof. vm_compute. reflexivity. Qed.

  Lemma ex_spends_u0 : spends ao reg t0 [uA; uB].
  Proof. repeat constructor. Qed.
End SupplyExample.

(* with a reward of two outputs the count of every output exceeds what is consumed *)
Lemma block_conservation_adopted_unshaped_refuted :
  exists (value_fn : N -> bool -> Z -> N) (addr_of : string -> string) (sig_ok : input -> bool)
         (St : settings) (c : cstate) (b : block) (prev_ts now : Z),
    verify_block value_fn addr_of sig_ok St c b prev_ts now = Ok tt /\
    forall uss : list (list utxo),
      Forall2 (fun t us => spends addr_of (ur c) t us) (ordinary b) uss ->
      worth value_fn (b_ts b) uss < created (txs b).
Proof.
  exists AcceptExample.vf, AcceptExample.ao, AcceptExample.so, AcceptExample.Sx,
         AcceptExample.c0, SupplyExample.b_bad, 20%Z, 100%Z.
  split; [vm_compute; reflexivity|].
  intros uss HF.
  change (ordinary SupplyExample.b_bad) with [AcceptExample.t0] in HF.
  inversion HF as [|t us l uss' Hs HF' E1 E2]. subst.
  inversion HF'. subst.
  assert (Hs' : spends AcceptExample.ao (ur AcceptExample.c0) AcceptExample.t0
                       [AcceptExample.uA; AcceptExample.uB]) by (repeat constructor).
  rewrite (spends_unique _ _ _ _ _ Hs Hs').
  vm_compute. reflexivity.
Qed.
