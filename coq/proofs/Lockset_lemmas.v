(* Lockset_lemmas.v — the generic theory behind the table checks of C16: for ANY access table
   and ANY lock-order graph, what [race_pairs tbl = []] (or: all of them known) and
   [acyclic edges = true] mean in the interleaving semantics of model/LockSem.v. *)
From RV Require Import model.Base model.Lockset model.LockSem.
From Coq Require Import Lia.

(* ------------------------------------------------------------------------------------------ *)
(* 0. membership facts about holdings                                                          *)
(* ------------------------------------------------------------------------------------------ *)

Lemma mem_str_In : forall a l, mem_str a l = true <-> In a l.
Proof.
  intros a l. induction l as [|x r IH]; simpl.
  - split; [discriminate | tauto].
  - destruct (String.eqb a x) eqn:E.
    + apply String.eqb_eq in E. subst. split; auto.
    + apply String.eqb_neq in E. rewrite IH. split; [auto|]. intros [H|H]; [congruence|auto].
Qed.

Lemma lmode_eqb_eq : forall a b, lmode_eqb a b = true <-> a = b.
Proof. intros [] []; simpl; split; intros H; congruence. Qed.

Lemma holds_any_In : forall h l, holds_any h l = true <-> exists m, In (l, m) h.
Proof.
  intros h l. unfold holds_any. rewrite existsb_exists. split.
  - intros [[l0 m0] [Hin He]]. simpl in He. apply String.eqb_eq in He. subst. eauto.
  - intros [m Hin]. exists (l, m). split; [auto|]. simpl. apply String.eqb_refl.
Qed.

Lemma holds_w_In : forall h l, holds_w h l = true <-> In (l, LW) h.
Proof.
  intros h l. unfold holds_w. rewrite existsb_exists. split.
  - intros [[l0 m0] [Hin He]]. apply andb_true_iff in He. destruct He as [He Hw].
    simpl in He. apply String.eqb_eq in He. subst. unfold is_lw in Hw. simpl in Hw.
    destruct m0; [discriminate|auto].
  - intros Hin. exists (l, LW). split; [auto|]. simpl. rewrite String.eqb_refl. reflexivity.
Qed.

Lemma holds_in_In : forall h l m, holds_in h (l, m) = true <-> In (l, m) h.
Proof.
  intros h l m. unfold holds_in. rewrite existsb_exists. split.
  - intros [[l0 m0] [Hin He]]. apply andb_true_iff in He. destruct He as [He Hm].
    simpl in He, Hm. apply String.eqb_eq in He. apply lmode_eqb_eq in Hm. subst. auto.
  - intros Hin. exists (l, m). split; [auto|]. simpl. rewrite String.eqb_refl.
    destruct m; reflexivity.
Qed.

Lemma holds_w_any : forall h l, holds_w h l = true -> holds_any h l = true.
Proof. intros h l H. apply holds_any_In. exists LW. apply holds_w_In. exact H. Qed.

Lemma release_incl : forall l h, incl (release l h) h.
Proof.
  intros l h. induction h as [|p r IH]; simpl.
  - apply incl_refl.
  - destruct (String.eqb (fst p) l).
    + apply incl_tl. apply incl_refl.
    + intros x [Hx|Hx]; [left; auto | right; apply IH; auto].
Qed.

Lemma holds_w_release : forall l0 h l, holds_w (release l0 h) l = true -> holds_w h l = true.
Proof. intros l0 h l H. apply holds_w_In. apply (release_incl l0). apply holds_w_In. exact H. Qed.

Lemma holds_any_release_false : forall l0 h l,
  holds_any h l = false -> holds_any (release l0 h) l = false.
Proof.
  intros l0 h l H. destruct (holds_any (release l0 h) l) eqn:E; [|reflexivity].
  apply holds_any_In in E. destruct E as [m Hm]. apply (release_incl l0) in Hm.
  assert (Ht : holds_any h l = true) by (apply holds_any_In; eauto). congruence.
Qed.

Lemma holds_any_cons : forall l0 m h l,
  holds_any ((l0, m) :: h) l = String.eqb l0 l || holds_any h l.
Proof. reflexivity. Qed.

Lemma holds_w_cons_W : forall l0 h l,
  holds_w ((l0, LW) :: h) l = String.eqb l0 l || holds_w h l.
Proof. intros. unfold holds_w. simpl. rewrite andb_true_r. reflexivity. Qed.

Lemma holds_w_cons_R : forall l0 h l, holds_w ((l0, LR) :: h) l = holds_w h l.
Proof. intros. unfold holds_w. simpl. rewrite andb_false_r. reflexivity. Qed.

Lemma held_after_snoc : forall pre e, held_after (pre ++ [e]) = apply_ev e (held_after pre).
Proof. intros pre e. unfold held_after, held_from. rewrite fold_left_app. reflexivity. Qed.

Lemma upd_same : forall s i t, upd s i t i = t.
Proof. intros. unfold upd. rewrite Nat.eqb_refl. reflexivity. Qed.

Lemma upd_other : forall s i t k, k <> i -> upd s i t k = s k.
Proof. intros s i t k H. unfold upd. apply Nat.eqb_neq in H. rewrite H. reflexivity. Qed.

(* ------------------------------------------------------------------------------------------ *)
(* 1. mutual exclusion                                                                         *)
(* ------------------------------------------------------------------------------------------ *)

Definition mutex_inv (s : state) : Prop :=
  forall i j l, holds_w (t_held (s i)) l = true -> j <> i -> holds_any (t_held (s j)) l = false.

Lemma mutex_inv_step : forall s s', mutex_inv s -> step s s' -> mutex_inv s'.
Proof.
  intros s s' IH [t [e [rest [Hp [Hen Hs']]]]] i j l Hw Hji.
  rewrite Hs' in Hw. rewrite Hs'.
  destruct (Nat.eq_dec i t) as [Eit|Eit]; destruct (Nat.eq_dec j t) as [Ejt|Ejt].
  - congruence.
  - (* the stepping thread is the write holder *)
    subst i. rewrite upd_same in Hw. rewrite (upd_other _ _ _ _ Ejt). cbn [t_held] in Hw.
    destruct e as [l0 m|l0|a]; cbn [apply_ev] in Hw.
    + destruct m.
      * rewrite holds_w_cons_R in Hw. apply (IH t j l Hw Hji).
      * rewrite holds_w_cons_W in Hw. apply orb_true_iff in Hw. destruct Hw as [Hw|Hw].
        -- apply String.eqb_eq in Hw. subst l0. simpl in Hen. apply Hen.
        -- apply (IH t j l Hw Hji).
    + apply holds_w_release in Hw. apply (IH t j l Hw Hji).
    + apply (IH t j l Hw Hji).
  - (* the stepping thread is the other one *)
    subst j. rewrite (upd_other _ _ _ _ Eit) in Hw. rewrite upd_same. cbn [t_held].
    assert (Hold : holds_any (t_held (s t)) l = false) by (apply (IH i t l Hw Hji)).
    destruct e as [l0 m|l0|a]; cbn [apply_ev].
    + rewrite holds_any_cons. rewrite Hold. rewrite orb_false_r.
      destruct (String.eqb l0 l) eqn:El; [|reflexivity].
      apply String.eqb_eq in El. subst l0. exfalso. simpl in Hen. destruct m.
      * rewrite (Hen i Eit) in Hw. discriminate.
      * apply holds_w_any in Hw. rewrite (Hen i) in Hw. discriminate.
    + apply holds_any_release_false. exact Hold.
    + exact Hold.
  - rewrite (upd_other _ _ _ _ Eit) in Hw. rewrite (upd_other _ _ _ _ Ejt).
    apply (IH i j l Hw Hji).
Qed.

(* in every reachable state a lock held in write mode is held by nobody else in any mode *)
Theorem mutual_exclusion : forall progs s, reachable progs s ->
  forall i j l, holds_w (t_held (s i)) l = true -> j <> i -> holds_any (t_held (s j)) l = false.
Proof.
  intros progs s Hr. change (mutex_inv s). induction Hr as [|s s' Hr IH Hst].
  - intros i j l Hw _. simpl in Hw. discriminate.
  - apply (mutex_inv_step s s' IH Hst).
Qed.

(* what a thread holds is what the executed prefix of its program acquired and did not release *)
Lemma thread_inv : forall progs s, reachable progs s ->
  forall i, exists pre, progs i = pre ++ t_prog (s i) /\ t_held (s i) = held_after pre.
Proof.
  intros progs s Hr. induction Hr as [|s s' Hr IH Hst]; intros i.
  - exists []. split; reflexivity.
  - destruct Hst as [t [e [rest [Hp [Hen Hs']]]]]. rewrite Hs'.
    destruct (Nat.eq_dec i t) as [E|E].
    + subst i. rewrite upd_same. simpl. destruct (IH t) as [pre [H1 H2]].
      exists (pre ++ [e]). split.
      * rewrite H1, Hp. rewrite <- app_assoc. reflexivity.
      * rewrite held_after_snoc. rewrite H2. reflexivity.
    + rewrite (upd_other _ _ _ _ E). apply IH.
Qed.

(* ------------------------------------------------------------------------------------------ *)
(* 2. two accesses protected by a common lock, one exclusively, are never both next            *)
(* ------------------------------------------------------------------------------------------ *)

Lemma common_excl_true : forall a b, common_excl a b = true <->
  exists l ma mb, In (l, ma) (a_locks a) /\ In (l, mb) (a_locks b) /\ (ma = LW \/ mb = LW).
Proof.
  intros a b. unfold common_excl. rewrite existsb_exists. split.
  - intros [[l ma] [Ha Hb]]. apply existsb_exists in Hb. destruct Hb as [[l' mb] [Hb He]].
    apply andb_true_iff in He. destruct He as [He Hw]. simpl in He.
    apply String.eqb_eq in He. subst l'. exists l, ma, mb. split; [auto|split; [auto|]].
    unfold is_lw in Hw. simpl in Hw. destruct ma; [|auto]. destruct mb; [discriminate|auto].
  - intros [l [ma [mb [Ha [Hb Hw]]]]]. exists (l, ma). split; [auto|].
    apply existsb_exists. exists (l, mb). split; [auto|]. simpl. rewrite String.eqb_refl.
    unfold is_lw. simpl. destruct Hw; subst; [reflexivity|]. destruct ma; reflexivity.
Qed.

(* a thread about to perform access a holds every lock a claims *)
Lemma next_access_holds : forall progs s i a, well_bracketed (progs i) -> reachable progs s ->
  next_is s i (EAccess a) -> forall l m, In (l, m) (a_locks a) -> In (l, m) (t_held (s i)).
Proof.
  intros progs s i a Hwb Hr [rest Hn] l m Hin.
  destruct (thread_inv progs s Hr i) as [pre [H1 H2]]. rewrite Hn in H1.
  specialize (Hwb pre a rest H1). unfold holds_claimed in Hwb.
  rewrite forallb_forall in Hwb. specialize (Hwb (l, m) Hin).
  rewrite H2. apply holds_in_In. exact Hwb.
Qed.

Theorem no_simultaneous_conflict : forall progs s i j a b,
  (forall k, well_bracketed (progs k)) -> reachable progs s -> i <> j ->
  next_is s i (EAccess a) -> next_is s j (EAccess b) -> common_excl a b = false.
Proof.
  intros progs s i j a b Hwb Hr Hij Hi Hj.
  destruct (common_excl a b) eqn:E; [|reflexivity]. exfalso.
  apply common_excl_true in E. destruct E as [l [ma [mb [Ha [Hb Hw]]]]].
  apply (next_access_holds progs s i a (Hwb i) Hr Hi) in Ha.
  apply (next_access_holds progs s j b (Hwb j) Hr Hj) in Hb.
  destruct Hw as [Hw|Hw]; subst.
  - assert (H1 : holds_w (t_held (s i)) l = true) by (apply holds_w_In; exact Ha).
    assert (H2 : holds_any (t_held (s j)) l = true) by (apply holds_any_In; eauto).
    rewrite (mutual_exclusion progs s Hr i j l H1) in H2; [discriminate | auto].
  - assert (H1 : holds_w (t_held (s j)) l = true) by (apply holds_w_In; exact Hb).
    assert (H2 : holds_any (t_held (s i)) l = true) by (apply holds_any_In; eauto).
    rewrite (mutual_exclusion progs s Hr j i l H1) in H2; [discriminate | auto].
Qed.

(* ------------------------------------------------------------------------------------------ *)
(* 3. the table check                                                                          *)
(* ------------------------------------------------------------------------------------------ *)

Lemma conflict_sym : forall a b, conflict a b = conflict b a.
Proof.
  intros a b. unfold conflict.
  rewrite (String.eqb_sym (a_type a)), (String.eqb_sym (a_field a)), (orb_comm (is_w a)).
  reflexivity.
Qed.

Lemma common_excl_sym : forall a b, common_excl a b = common_excl b a.
Proof.
  assert (H : forall a b, common_excl a b = true -> common_excl b a = true).
  { intros a b H. apply common_excl_true in H. destruct H as [l [ma [mb [Ha [Hb Hw]]]]].
    apply common_excl_true. exists l, mb, ma. tauto. }
  intros a b. destruct (common_excl a b) eqn:E1; destruct (common_excl b a) eqn:E2; auto.
  - apply H in E1. congruence.
  - apply H in E2. congruence.
Qed.

Lemma may_overlap_sym : forall a b, may_overlap a b = may_overlap b a.
Proof.
  intros a b. unfold may_overlap. destruct (String.eqb (a_entry a) (a_entry b)) eqn:E.
  - apply String.eqb_eq in E. rewrite E. rewrite String.eqb_refl. reflexivity.
  - rewrite String.eqb_sym in E. rewrite E. reflexivity.
Qed.

Lemma racy_sym : forall a b, racy a b = racy b a.
Proof.
  intros a b. unfold racy.
  rewrite (conflict_sym a b), (common_excl_sym a b), (may_overlap_sym a b). reflexivity.
Qed.

Lemma pairs_from_complete : forall (A : Type) (l : list A) a b,
  In a l -> In b l -> In (a, b) (pairs_from l) \/ In (b, a) (pairs_from l).
Proof.
  intros A l. induction l as [|x r IH]; intros a b Ha Hb.
  - destruct Ha.
  - cbn [pairs_from]. destruct Ha as [Ha|Ha].
    + subst x. left. apply in_or_app. left. apply in_map. exact Hb.
    + destruct Hb as [Hb|Hb].
      * subst x. right. apply in_or_app. left. apply in_map. right. exact Ha.
      * destruct (IH a b Ha Hb) as [H|H]; [left|right]; apply in_or_app; right; exact H.
Qed.

Lemma race_pairs_complete : forall tbl a b, In a tbl -> In b tbl -> racy a b = true ->
  In (a, b) (race_pairs tbl) \/ In (b, a) (race_pairs tbl).
Proof.
  intros tbl a b Ha Hb Hr. unfold race_pairs.
  destruct (pairs_from_complete _ tbl a b Ha Hb) as [H|H]; [left|right];
    apply filter_In; (split; [exact H|]); simpl; [exact Hr|].
  rewrite racy_sym. exact Hr.
Qed.

Lemma next_in_prog : forall progs s i e, reachable progs s -> next_is s i e -> In e (progs i).
Proof.
  intros progs s i e Hr [rest Hn].
  destruct (thread_inv progs s Hr i) as [pre [H1 _]]. rewrite Hn in H1.
  rewrite H1. apply in_or_app. right. left. reflexivity.
Qed.

Lemma next_access_in_table : forall tbl progs s i a, accesses_in tbl (progs i) ->
  reachable progs s -> next_is s i (EAccess a) -> In a tbl.
Proof.
  intros tbl progs s i a Hacc Hr Hn. apply Hacc. apply (next_in_prog progs s i _ Hr Hn).
Qed.

(* every racing pair of the table being in [known], two conflicting accesses of overlapping
   entry points that are both about to execute are a known pair: nothing else can race *)
Theorem table_race_free : forall tbl known progs s i j a b,
  (forall k, well_bracketed (progs k)) -> (forall k, accesses_in tbl (progs k)) ->
  (forall p, In p (race_pairs tbl) -> In p known) ->
  reachable progs s -> i <> j ->
  next_is s i (EAccess a) -> next_is s j (EAccess b) ->
  may_overlap a b = true -> conflict a b = true ->
  In (a, b) known \/ In (b, a) known.
Proof.
  intros tbl known progs s i j a b Hwb Hacc Hk Hr Hij Hi Hj Hov Hc.
  assert (Hce : common_excl a b = false)
    by (apply (no_simultaneous_conflict progs s i j a b Hwb Hr Hij Hi Hj)).
  assert (Hracy : racy a b = true) by (unfold racy; rewrite Hc, Hce, Hov; reflexivity).
  assert (Ha : In a tbl) by (apply (next_access_in_table tbl progs s i a (Hacc i) Hr Hi)).
  assert (Hb : In b tbl) by (apply (next_access_in_table tbl progs s j b (Hacc j) Hr Hj)).
  destruct (race_pairs_complete tbl a b Ha Hb Hracy) as [H|H]; [left|right]; apply Hk; exact H.
Qed.

(* the table has no racing pair at all: conflicting accesses are never both next *)
Corollary table_race_free_nil : forall tbl progs s i j a b,
  (forall k, well_bracketed (progs k)) -> (forall k, accesses_in tbl (progs k)) ->
  race_pairs tbl = [] ->
  reachable progs s -> i <> j ->
  next_is s i (EAccess a) -> next_is s j (EAccess b) ->
  may_overlap a b = true -> conflict a b = false.
Proof.
  intros tbl progs s i j a b Hwb Hacc Hnil Hr Hij Hi Hj Hov.
  destruct (conflict a b) eqn:Hc; [|reflexivity]. exfalso.
  destruct (table_race_free tbl [] progs s i j a b Hwb Hacc) as [H|H]; auto.
  intros p Hp. rewrite Hnil in Hp. exact Hp.
Qed.

(* threads that run one entry point each, engine entry points by one thread only: accesses of
   two different threads may overlap in the sense of the table *)
Lemma threads_may_overlap : forall entry progs s i j a b,
  runs_entries entry progs -> engine_single entry ->
  reachable progs s -> i <> j ->
  next_is s i (EAccess a) -> next_is s j (EAccess b) -> may_overlap a b = true.
Proof.
  intros entry progs s i j a b Hre Hes Hr Hij Hi Hj.
  assert (Ha : a_entry a = entry i).
  { apply Hre. apply (next_in_prog progs s i _ Hr Hi). }
  assert (Hb : a_entry b = entry j).
  { apply Hre. apply (next_in_prog progs s j _ Hr Hj). }
  unfold may_overlap. rewrite Ha, Hb.
  destruct (String.eqb (entry i) (entry j)) eqn:E; [|reflexivity].
  apply String.eqb_eq in E. rewrite (Hes i j Hij E). reflexivity.
Qed.

Theorem table_race_free_entries : forall tbl known entry progs s i j a b,
  (forall k, well_bracketed (progs k)) -> (forall k, accesses_in tbl (progs k)) ->
  runs_entries entry progs -> engine_single entry ->
  (forall p, In p (race_pairs tbl) -> In p known) ->
  reachable progs s -> i <> j ->
  next_is s i (EAccess a) -> next_is s j (EAccess b) ->
  conflict a b = true ->
  In (a, b) known \/ In (b, a) known.
Proof.
  intros tbl known entry progs s i j a b Hwb Hacc Hre Hes Hk Hr Hij Hi Hj Hc.
  apply (table_race_free tbl known progs s i j a b Hwb Hacc Hk Hr Hij Hi Hj); [|exact Hc].
  apply (threads_may_overlap entry progs s i j a b Hre Hes Hr Hij Hi Hj).
Qed.

(* the same, with the known findings given by their keys as in the known-findings file *)
Lemma str_min_sym : forall x y : string,
  (if str_leb x y then x else y) = (if str_leb y x then y else x).
Proof.
  intros x y. unfold str_leb. rewrite (String.compare_antisym y x).
  destruct (String.compare x y) eqn:E; simpl; try reflexivity.
  apply String.compare_eq_iff in E. auto.
Qed.

Lemma str_max_sym : forall x y : string,
  (if str_leb x y then y else x) = (if str_leb y x then x else y).
Proof.
  intros x y. unfold str_leb. rewrite (String.compare_antisym y x).
  destruct (String.compare x y) eqn:E; simpl; try reflexivity.
  apply String.compare_eq_iff in E. auto.
Qed.

Lemma race_key_sym : forall a b, conflict a b = true -> race_key (a, b) = race_key (b, a).
Proof.
  intros a b Hc. unfold conflict in Hc. apply andb_true_iff in Hc. destruct Hc as [Hc _].
  apply andb_true_iff in Hc. destruct Hc as [Ht Hf].
  apply String.eqb_eq in Ht. apply String.eqb_eq in Hf.
  unfold race_key. cbn [fst snd]. rewrite Ht, Hf.
  rewrite (str_min_sym (a_entry a) (a_entry b)), (str_max_sym (a_entry a) (a_entry b)).
  reflexivity.
Qed.

Theorem table_race_free_keys : forall tbl keys,
  forallb (fun p => mem_str (race_key p) keys) (race_pairs tbl) = true ->
  forall progs s i j a b,
  (forall k, well_bracketed (progs k)) -> (forall k, accesses_in tbl (progs k)) ->
  reachable progs s -> i <> j ->
  next_is s i (EAccess a) -> next_is s j (EAccess b) ->
  may_overlap a b = true -> conflict a b = true ->
  mem_str (race_key (a, b)) keys = true.
Proof.
  intros tbl keys Hall progs s i j a b Hwb Hacc Hr Hij Hi Hj Hov Hc.
  rewrite forallb_forall in Hall.
  destruct (table_race_free tbl (race_pairs tbl) progs s i j a b Hwb Hacc
              (fun p H => H) Hr Hij Hi Hj Hov Hc) as [H|H].
  - apply (Hall _ H).
  - rewrite (race_key_sym a b Hc). apply (Hall _ H).
Qed.

(* ------------------------------------------------------------------------------------------ *)
(* 4. the lock-order check                                                                     *)
(* ------------------------------------------------------------------------------------------ *)

Lemma has_pred_intro : forall edges a b, In (a, b) edges -> a <> b -> has_pred edges b = true.
Proof.
  intros edges a b Hin Hne. unfold has_pred. apply existsb_exists. exists (a, b).
  split; [exact Hin|]. simpl. rewrite String.eqb_refl. apply String.eqb_neq in Hne.
  rewrite Hne. reflexivity.
Qed.

Lemma peel_rank : forall fuel edges, peel fuel edges = [] ->
  exists rank : string -> nat, forall a b, In (a, b) edges -> a <> b -> rank a < rank b.
Proof.
  induction fuel as [|f IH]; intros edges H.
  - simpl in H. subst edges. exists (fun _ => 0). intros a b [].
  - cbn [peel] in H.
    remember (filter (fun l => negb (has_pred edges l)) (nodes edges)) as free eqn:Ef.
    assert (Hfree : forall a b, In (a, b) edges -> a <> b -> mem_str b free = false).
    { intros a b Hin Hne. destruct (mem_str b free) eqn:E; [|reflexivity].
      apply mem_str_In in E. rewrite Ef in E. apply filter_In in E. destruct E as [_ E].
      rewrite (has_pred_intro edges a b Hin Hne) in E. discriminate. }
    remember (filter (fun e => negb (mem_str (fst e) free)) edges) as rest eqn:Er.
    assert (Hrest : forall a b, In (a, b) edges -> mem_str a free = false -> In (a, b) rest).
    { intros a b Hin Hm. rewrite Er. apply filter_In. split; [exact Hin|]. simpl.
      rewrite Hm. reflexivity. }
    destruct rest as [|r0 rest'].
    + exists (fun x => if mem_str x free then 0 else 1). intros a b Hin Hne.
      rewrite (Hfree a b Hin Hne). destruct (mem_str a free) eqn:Ea; [lia|].
      destruct (Hrest a b Hin Ea).
    + destruct (Nat.eqb (length (r0 :: rest')) (length edges)); [discriminate|].
      destruct (IH _ H) as [rk Hrk].
      exists (fun x => if mem_str x free then 0 else S (rk x)). intros a b Hin Hne.
      rewrite (Hfree a b Hin Hne). destruct (mem_str a free) eqn:Ea; [lia|].
      specialize (Hrk a b (Hrest a b Hin Ea) Hne). lia.
Qed.

Theorem acyclic_no_self_loop : forall edges, acyclic edges = true ->
  forall a, ~ In (a, a) edges.
Proof.
  intros edges H a Hin. unfold acyclic in H.
  destruct (peel (S (length edges)) edges); [|discriminate].
  apply negb_true_iff in H.
  assert (Ht : existsb (fun e => String.eqb (fst e) (snd e)) edges = true).
  { apply existsb_exists. exists (a, a). split; [exact Hin|]. simpl. apply String.eqb_refl. }
  congruence.
Qed.

(* the peeling order is a rank along which every edge between distinct locks goes up *)
Theorem acyclic_rank : forall edges, acyclic edges = true ->
  exists rank : string -> nat, forall a b, In (a, b) edges -> a <> b -> rank a < rank b.
Proof.
  intros edges H. unfold acyclic in H.
  destruct (peel (S (length edges)) edges) eqn:E; [|discriminate].
  apply (peel_rank _ _ E).
Qed.

Corollary acyclic_rank_strict : forall edges, acyclic edges = true ->
  exists rank : string -> nat, forall a b, In (a, b) edges -> rank a < rank b.
Proof.
  intros edges H. destruct (acyclic_rank edges H) as [rank Hr]. exists rank.
  intros a b Hin. apply (Hr a b Hin). intros E. subst b.
  apply (acyclic_no_self_loop edges H a Hin).
Qed.

Lemma follows_edges_ordered : forall edges rank p,
  (forall a b, In (a, b) edges -> rank a < rank b) -> follows_edges edges p -> ordered rank p.
Proof.
  intros edges rank p Hr Hf pre l m post Hp l' m' Hin.
  apply Hr. apply (Hf pre l m post Hp l' m' Hin).
Qed.

(* ------------------------------------------------------------------------------------------ *)
(* 5. ordered acquisition excludes deadlock (any number of threads)                            *)
(* ------------------------------------------------------------------------------------------ *)

Lemma can_step : forall s i e rest, t_prog (s i) = e :: rest -> enabled s i e ->
  exists s', step s s'.
Proof.
  intros s i e rest Hp Hen.
  exists (upd s i (mkT rest (apply_ev e (t_held (s i))))). exists i, e, rest.
  split; [exact Hp|split; [exact Hen|reflexivity]].
Qed.

Lemma bounded_search : forall (f : nat -> bool) n,
  (exists j, j < n /\ f j = true) \/ (forall j, j < n -> f j = false).
Proof.
  intros f n. induction n as [|n IH].
  - right. intros j Hj. lia.
  - destruct IH as [[j [Hj Hf]]|IH].
    + left. exists j. split; [lia|exact Hf].
    + destruct (f n) eqn:E.
      * left. exists n. split; [lia|exact E].
      * right. intros j Hj. destruct (Nat.eq_dec j n) as [->|Hne]; [exact E|].
        apply IH. lia.
Qed.

(* with finitely many threads holding anything, an acquisition is enabled or somebody holds
   the lock (constructively) *)
Lemma enabled_or_holder : forall n s, (forall j, n <= j -> t_held (s j) = []) ->
  forall i l m, enabled s i (EAcq l m) \/ exists j, holds_any (t_held (s j)) l = true.
Proof.
  intros n s Hfin i l m. destruct m.
  - destruct (bounded_search
      (fun j => negb (Nat.eqb j i) && holds_w (t_held (s j)) l) n) as [[j [Hj Hf]]|Hno].
    + right. exists j. apply andb_true_iff in Hf. destruct Hf as [_ Hf].
      apply holds_w_any. exact Hf.
    + left. simpl. intros j Hji. destruct (le_lt_dec n j) as [Hge|Hlt].
      * rewrite (Hfin j Hge). reflexivity.
      * specialize (Hno j Hlt). apply Nat.eqb_neq in Hji. rewrite Hji in Hno.
        simpl in Hno. exact Hno.
  - destruct (bounded_search (fun j => holds_any (t_held (s j)) l) n) as [[j [Hj Hf]]|Hno].
    + right. exists j. exact Hf.
    + left. simpl. intros j. destruct (le_lt_dec n j) as [Hge|Hlt].
      * rewrite (Hfin j Hge). reflexivity.
      * apply (Hno j Hlt).
Qed.

Lemma beyond_holds_nothing : forall n progs s, finite_threads n progs -> reachable progs s ->
  forall j, n <= j -> t_prog (s j) = [] /\ t_held (s j) = [].
Proof.
  intros n progs s Hfin Hr j Hj. destruct (thread_inv progs s Hr j) as [pre [H1 H2]].
  rewrite (Hfin j Hj) in H1. symmetry in H1. apply app_eq_nil in H1. destruct H1 as [Hp Ht].
  subst pre. split; [exact Ht|exact H2].
Qed.

Lemma finished_holds_nothing : forall progs s j, balanced (progs j) -> reachable progs s ->
  t_prog (s j) = [] -> t_held (s j) = [].
Proof.
  intros progs s j Hb Hr Hp. destruct (thread_inv progs s Hr j) as [pre [H1 H2]].
  rewrite Hp, app_nil_r in H1. subst pre. rewrite H2. exact Hb.
Qed.

(* the rank of the lock a thread is about to acquire *)
Definition wait_rank (rank : string -> nat) (s : state) (i : nat) : nat :=
  match t_prog (s i) with EAcq l _ :: _ => rank l | _ => 0 end.
Fixpoint maxw (rank : string -> nat) (s : state) (n : nat) : nat :=
  match n with 0 => 0 | S k => Nat.max (wait_rank rank s k) (maxw rank s k) end.

Lemma maxw_ge : forall rank s n i, i < n -> wait_rank rank s i <= maxw rank s n.
Proof.
  intros rank s n. induction n as [|n IH]; intros i Hi; [lia|]. cbn [maxw].
  destruct (Nat.eq_dec i n) as [->|Hne]; [lia|]. specialize (IH i). lia.
Qed.

Lemma progress_aux : forall progs rank n s,
  finite_threads n progs -> (forall k, ordered rank (progs k)) ->
  (forall k, balanced (progs k)) -> reachable progs s ->
  forall d i, unfinished s i -> maxw rank s n - wait_rank rank s i < d ->
  exists s', step s s'.
Proof.
  intros progs rank n s Hfin Hord Hbal Hr.
  assert (Hnone : forall j, n <= j -> t_held (s j) = [])
    by (intros j Hj; apply (beyond_holds_nothing n progs s Hfin Hr j Hj)).
  induction d as [|d IH]; intros i Hu Hd; [lia|].
  unfold unfinished in Hu. destruct (t_prog (s i)) as [|e rest] eqn:Ep; [congruence|].
  destruct e as [l m|l|a].
  2: { apply (can_step s i _ rest Ep I). }
  2: { apply (can_step s i _ rest Ep I). }
  destruct (enabled_or_holder n s Hnone i l m) as [Hen|[j Hj]].
  { apply (can_step s i _ rest Ep Hen). }
  (* j holds l: it is one of the n threads and it is not finished *)
  assert (Hjn : j < n).
  { destruct (le_lt_dec n j) as [Hge|Hlt]; [|exact Hlt].
    rewrite (Hnone j Hge) in Hj. discriminate. }
  destruct (t_prog (s j)) as [|e' rest'] eqn:Epj.
  { rewrite (finished_holds_nothing progs s j (Hbal j) Hr Epj) in Hj. discriminate. }
  destruct e' as [l' m'|l'|a'].
  2: { apply (can_step s j _ rest' Epj I). }
  2: { apply (can_step s j _ rest' Epj I). }
  (* j waits for l', which is above l *)
  assert (Hlt : rank l < rank l').
  { destruct (thread_inv progs s Hr j) as [pre [H1 H2]]. rewrite Epj in H1.
    apply holds_any_In in Hj. destruct Hj as [mj Hj]. rewrite H2 in Hj.
    apply (Hord j pre l' m' rest' H1 l mj Hj). }
  assert (Hwi : wait_rank rank s i = rank l) by (unfold wait_rank; rewrite Ep; reflexivity).
  assert (Hwj : wait_rank rank s j = rank l') by (unfold wait_rank; rewrite Epj; reflexivity).
  assert (Hmax : wait_rank rank s j <= maxw rank s n) by (apply maxw_ge; exact Hjn).
  apply (IH j).
  - unfold unfinished. rewrite Epj. discriminate.
  - lia.
Qed.

(* progress: as long as something is left to run, some thread can run *)
Theorem ordered_progress : forall progs rank n,
  finite_threads n progs -> (forall k, ordered rank (progs k)) ->
  (forall k, balanced (progs k)) ->
  forall s, reachable progs s -> (exists i, unfinished s i) -> exists s', step s s'.
Proof.
  intros progs rank n Hfin Hord Hbal s Hr [i Hu].
  apply (progress_aux progs rank n s Hfin Hord Hbal Hr
           (S (maxw rank s n - wait_rank rank s i)) i Hu). lia.
Qed.

Theorem ordered_no_deadlock : forall progs rank n,
  finite_threads n progs -> (forall k, ordered rank (progs k)) ->
  (forall k, balanced (progs k)) ->
  forall s, reachable progs s -> ~ deadlock s.
Proof.
  intros progs rank n Hfin Hord Hbal s Hr [Hex Hall].
  destruct (ordered_progress progs rank n Hfin Hord Hbal s Hr Hex)
    as [s' [i [e [rest [Hp [Hen _]]]]]].
  assert (Hu : unfinished s i) by (unfold unfinished; rewrite Hp; discriminate).
  destruct (Hall i Hu) as [e' [rest' [Hp' Hnot]]].
  rewrite Hp in Hp'. inversion Hp'. subst. apply Hnot. exact Hen.
Qed.

(* the form the table check is used in: acquisitions follow an acyclic edge set *)
Theorem acyclic_no_deadlock : forall progs edges n,
  acyclic edges = true -> finite_threads n progs ->
  (forall k, follows_edges edges (progs k)) -> (forall k, balanced (progs k)) ->
  forall s, reachable progs s -> ~ deadlock s.
Proof.
  intros progs edges n Hac Hfin Hfol Hbal.
  destruct (acyclic_rank_strict edges Hac) as [rank Hrank].
  apply (ordered_no_deadlock progs rank n Hfin); [|exact Hbal].
  intros k. apply (follows_edges_ordered edges rank (progs k) Hrank (Hfol k)).
Qed.

(* ------------------------------------------------------------------------------------------ *)
(* 6. the executable checkers are sound                                                        *)
(* ------------------------------------------------------------------------------------------ *)

Lemma check_from_sound : forall chk p h, check_from chk h p = true ->
  forall pre e post, p = pre ++ e :: post -> chk (held_from h pre) e = true.
Proof.
  intros chk p. induction p as [|x r IH]; intros h H pre e post Hp.
  - destruct pre; discriminate.
  - cbn [check_from] in H. apply andb_true_iff in H. destruct H as [H1 H2].
    destruct pre as [|y pre'].
    + simpl in Hp. inversion Hp. subst. exact H1.
    + simpl in Hp. inversion Hp. subst. apply (IH _ H2 pre' e post eq_refl).
Qed.

Lemma wb_check_sound : forall p, wb_check p = true -> well_bracketed p.
Proof.
  intros p H pre a post Hp. apply (check_from_sound _ _ _ H pre (EAccess a) post Hp).
Qed.

Lemma ordered_check_sound : forall rank p, ordered_check rank p = true -> ordered rank p.
Proof.
  intros rank p H pre l m post Hp l' m' Hin.
  pose proof (check_from_sound _ _ _ H pre (EAcq l m) post Hp) as Hc. simpl in Hc.
  rewrite forallb_forall in Hc. specialize (Hc (l', m') Hin). apply Nat.ltb_lt in Hc. exact Hc.
Qed.

Lemma mem_edge_In : forall e edges, mem_edge e edges = true -> In e edges.
Proof.
  intros [a b] edges H. unfold mem_edge in H. apply existsb_exists in H.
  destruct H as [[x y] [Hin He]]. simpl in He. apply andb_true_iff in He.
  destruct He as [H1 H2]. apply String.eqb_eq in H1. apply String.eqb_eq in H2. subst. exact Hin.
Qed.

Lemma follows_check_sound : forall edges p, follows_check edges p = true -> follows_edges edges p.
Proof.
  intros edges p H pre l m post Hp l' m' Hin.
  pose proof (check_from_sound _ _ _ H pre (EAcq l m) post Hp) as Hc. simpl in Hc.
  rewrite forallb_forall in Hc. specialize (Hc (l', m') Hin). apply mem_edge_In in Hc. exact Hc.
Qed.

Lemma balanced_check_sound : forall p, balanced_check p = true -> balanced p.
Proof.
  intros p H. unfold balanced_check in H. unfold balanced.
  destruct (held_after p); [reflexivity|discriminate].
Qed.

Lemma rw_eqb_eq : forall a b, rw_eqb a b = true -> a = b.
Proof. intros [] []; simpl; congruence. Qed.

Lemma locks_eqb_eq : forall x y, locks_eqb x y = true -> x = y.
Proof.
  induction x as [|[l m] x IH]; intros [|[l' m'] y] H; simpl in H; try discriminate.
  - reflexivity.
  - apply andb_true_iff in H. destruct H as [H H3]. apply andb_true_iff in H.
    destruct H as [H1 H2]. apply String.eqb_eq in H1. apply lmode_eqb_eq in H2.
    apply IH in H3. subst. reflexivity.
Qed.

Lemma access_eqb_eq : forall a b, access_eqb a b = true -> a = b.
Proof.
  intros [e1 t1 f1 r1 l1] [e2 t2 f2 r2 l2] H. unfold access_eqb in H. simpl in H.
  repeat (apply andb_true_iff in H; let H' := fresh "H" in destruct H as [H H']).
  apply String.eqb_eq in H. apply String.eqb_eq in H3. apply String.eqb_eq in H2.
  apply rw_eqb_eq in H1. apply locks_eqb_eq in H0. subst. reflexivity.
Qed.

Lemma accesses_check_sound : forall tbl p, accesses_check tbl p = true -> accesses_in tbl p.
Proof.
  intros tbl p H a Hin. unfold accesses_check in H. rewrite forallb_forall in H.
  specialize (H _ Hin). simpl in H. apply existsb_exists in H. destruct H as [b [Hb He]].
  apply access_eqb_eq in He. subst. exact Hb.
Qed.

(* a finite list of programs *)
Lemma progs_of_all : forall (P : program -> Prop) (c : program -> bool) ps,
  (forall p, c p = true -> P p) -> P [] -> forallb c ps = true -> forall k, P (progs_of ps k).
Proof.
  intros P c ps Hs Hnil H k. unfold progs_of.
  destruct (nth_in_or_default k ps []) as [Hin|Hd].
  - rewrite forallb_forall in H. apply Hs. apply H. exact Hin.
  - rewrite Hd. exact Hnil.
Qed.

Lemma progs_of_finite : forall ps, finite_threads (length ps) (progs_of ps).
Proof. intros ps i Hi. unfold progs_of. apply nth_overflow. exact Hi. Qed.

Lemma wb_nil : well_bracketed [].
Proof. intros pre a post H. destruct pre; discriminate. Qed.
Lemma follows_nil : forall edges, follows_edges edges [].
Proof. intros edges pre l m post H. destruct pre; discriminate. Qed.
Lemma ordered_nil : forall rank, ordered rank [].
Proof. intros rank pre l m post H. destruct pre; discriminate. Qed.
Lemma accesses_nil : forall tbl, accesses_in tbl [].
Proof. intros tbl a []. Qed.

(* the generic theorems for a concrete finite list of programs, every hypothesis a computation *)
Theorem checked_no_simultaneous_conflict : forall ps, forallb wb_check ps = true ->
  forall s i j a b, reachable (progs_of ps) s -> i <> j ->
  next_is s i (EAccess a) -> next_is s j (EAccess b) -> common_excl a b = false.
Proof.
  intros ps H s i j a b Hr Hij Hi Hj.
  apply (no_simultaneous_conflict (progs_of ps) s i j a b); auto.
  apply (progs_of_all well_bracketed wb_check ps wb_check_sound wb_nil H).
Qed.

Theorem checked_race_free : forall tbl keys ps,
  forallb (fun p => mem_str (race_key p) keys) (race_pairs tbl) = true ->
  forallb wb_check ps = true -> forallb (accesses_check tbl) ps = true ->
  forall s i j a b, reachable (progs_of ps) s -> i <> j ->
  next_is s i (EAccess a) -> next_is s j (EAccess b) ->
  may_overlap a b = true -> conflict a b = true ->
  mem_str (race_key (a, b)) keys = true.
Proof.
  intros tbl keys ps Hk Hwb Hacc s i j a b Hr Hij Hi Hj Hov Hc.
  apply (table_race_free_keys tbl keys Hk (progs_of ps) s i j a b); auto.
  - apply (progs_of_all well_bracketed wb_check ps wb_check_sound wb_nil Hwb).
  - apply (progs_of_all (accesses_in tbl) (accesses_check tbl) ps
             (accesses_check_sound tbl) (accesses_nil tbl) Hacc).
Qed.

Theorem checked_no_deadlock : forall edges ps, acyclic edges = true ->
  forallb (follows_check edges) ps = true -> forallb balanced_check ps = true ->
  forall s, reachable (progs_of ps) s -> ~ deadlock s.
Proof.
  intros edges ps Hac Hf Hb.
  apply (acyclic_no_deadlock (progs_of ps) edges (length ps) Hac (progs_of_finite ps)).
  - apply (progs_of_all (follows_edges edges) (follows_check edges) ps
             (follows_check_sound edges) (follows_nil edges) Hf).
  - apply (progs_of_all balanced balanced_check ps balanced_check_sound eq_refl Hb).
Qed.

Theorem checked_progress : forall edges ps, acyclic edges = true ->
  forallb (follows_check edges) ps = true -> forallb balanced_check ps = true ->
  forall s, reachable (progs_of ps) s -> (exists i, unfinished s i) -> exists s', step s s'.
Proof.
  intros edges ps Hac Hf Hb.
  destruct (acyclic_rank_strict edges Hac) as [rank Hrank].
  apply (ordered_progress (progs_of ps) rank (length ps) (progs_of_finite ps)).
  - intros k. apply (follows_edges_ordered edges rank _ Hrank).
    apply (progs_of_all (follows_edges edges) (follows_check edges) ps
             (follows_check_sound edges) (follows_nil edges) Hf).
  - apply (progs_of_all balanced balanced_check ps balanced_check_sound eq_refl Hb).
Qed.

(* ------------------------------------------------------------------------------------------ *)
(* 7. a tiny instance (used by the Examples of props/C16.v)                                    *)
(* ------------------------------------------------------------------------------------------ *)
Local Open Scope string_scope.

(* a field T.x written under T.mu, read under T.mu, and read once without any lock *)
Definition ex_w : access := mkAcc "T.Set" "T" "x" W [("T.mu", LW)].
Definition ex_r : access := mkAcc "T.Get" "T" "x" R [("T.mu", LR)].
Definition ex_u : access := mkAcc "T.Peek" "T" "x" R [].
Definition ex_tbl : list access := [ex_w; ex_r; ex_u].
Definition ex_keys : list string := ["race:T.x:T.Peek|T.Set"].
Definition ex_edges : list (string * string) := [("T.mu", "U.mu")].
Definition ex_ps : list program :=
  [ [EAcq "T.mu" LW; EAccess ex_w; EAcq "U.mu" LW; ERel "U.mu"; ERel "T.mu"];
    [EAcq "T.mu" LR; EAccess ex_r; ERel "T.mu"];
    [EAccess ex_u] ].

(* the excluded pair is not excluded for nothing: Set (holding T.mu) and Peek are both next *)
Lemma ex_known_race_realizable : exists s, reachable (progs_of ex_ps) s /\
  next_is s 0 (EAccess ex_w) /\ next_is s 2 (EAccess ex_u) /\
  conflict ex_w ex_u = true /\ common_excl ex_w ex_u = false.
Proof.
  exists (upd (init (progs_of ex_ps)) 0
            (mkT [EAccess ex_w; EAcq "U.mu" LW; ERel "U.mu"; ERel "T.mu"] [("T.mu", LW)])).
  split; [|split; [|split; [|split]]].
  - apply (reach_step _ (init (progs_of ex_ps))); [apply reach_init|].
    exists 0, (EAcq "T.mu" LW), [EAccess ex_w; EAcq "U.mu" LW; ERel "U.mu"; ERel "T.mu"].
    split; [reflexivity|split; [|reflexivity]]. intros j. reflexivity.
  - eexists. reflexivity.
  - eexists. reflexivity.
  - reflexivity.
  - reflexivity.
Qed.

(* two threads taking A and B in opposite orders: the definition of deadlock is satisfiable,
   and the order check rejects the edge set *)
Definition ex_bad_edges : list (string * string) := [("A", "B"); ("B", "A")].
Definition ex_bad_ps : list program :=
  [ [EAcq "A" LW; EAcq "B" LW; ERel "B"; ERel "A"];
    [EAcq "B" LW; EAcq "A" LW; ERel "A"; ERel "B"] ].

Lemma ex_bad_deadlocks : exists s, reachable (progs_of ex_bad_ps) s /\ deadlock s.
Proof.
  pose (s1 := upd (init (progs_of ex_bad_ps)) 0
                (mkT [EAcq "B" LW; ERel "B"; ERel "A"] [("A", LW)])).
  pose (s2 := upd s1 1 (mkT [EAcq "A" LW; ERel "A"; ERel "B"] [("B", LW)])).
  exists s2. split.
  - apply (reach_step _ s1).
    + apply (reach_step _ (init (progs_of ex_bad_ps))); [apply reach_init|].
      exists 0, (EAcq "A" LW), [EAcq "B" LW; ERel "B"; ERel "A"].
      split; [reflexivity|split; [|reflexivity]]. intros j. reflexivity.
    + exists 1, (EAcq "B" LW), [EAcq "A" LW; ERel "A"; ERel "B"].
      split; [reflexivity|split; [|reflexivity]]. intros j.
      destruct j as [|j]; reflexivity.
  - split.
    + exists 0. unfold unfinished. simpl. discriminate.
    + intros i Hu. destruct i as [|[|i]].
      * exists (EAcq "B" LW), [ERel "B"; ERel "A"]. split; [reflexivity|].
        intros Hen. specialize (Hen 1). simpl in Hen. discriminate.
      * exists (EAcq "A" LW), [ERel "A"; ERel "B"]. split; [reflexivity|].
        intros Hen. specialize (Hen 0). simpl in Hen. discriminate.
      * exfalso. apply Hu. unfold s2, s1, upd, init, progs_of. simpl. destruct i; reflexivity.
Qed.
