From RV Require Import model.Base model.Clock.
From Coq Require Import Lia ZArith Sorted.
Local Open Scope Z_scope.

Lemma truncate_aligned t d : 0 < d -> aligned d (truncate_t t d).
Proof.
  intros Hd. unfold aligned, truncate_t.
  destruct (Z.leb_spec d 0) as [H|H]; [lia|].
  replace (t - (t + epoch_off) mod d + epoch_off) with ((t + epoch_off) - (t + epoch_off) mod d) by lia.
  set (a := t + epoch_off).
  rewrite Zminus_mod, Z.mod_mod, Z.sub_diag by lia. apply Z.mod_0_l; lia.
Qed.

Lemma aligned_add d t : 0 < d -> aligned d t -> aligned d (t + d).
Proof.
  unfold aligned; intros Hd H.
  replace (t + d + epoch_off) with ((t + epoch_off) + 1 * d) by lia.
  rewrite Z.mod_add by lia. exact H.
Qed.

Lemma pulse_spec d r : 0 < d ->
  aligned d (pulse_stamp d r) /\ r < pulse_stamp d r <= r + d.
Proof.
  intros Hd. unfold pulse_stamp. split.
  - apply aligned_add; [lia|]. apply truncate_aligned; lia.
  - unfold truncate_t. destruct (Z.leb_spec d 0) as [H|H]; [lia|].
    pose proof (Z.mod_pos_bound (r + epoch_off) d Hd). lia.
Qed.

(* the stamp is the *next* boundary: no aligned instant lies strictly between r and it *)
Lemma pulse_next d r t : 0 < d -> aligned d t -> r < t -> pulse_stamp d r <= t.
Proof.
  intros Hd Ha Hlt. unfold pulse_stamp, truncate_t, aligned in *.
  destruct (Z.leb_spec d 0) as [H|H]; [lia|].
  set (a := r + epoch_off) in *. set (b := t + epoch_off) in *.
  assert (Hab : a < b) by (subst a b; lia).
  pose proof (Z.div_mod a d ltac:(lia)) as Ea.
  pose proof (Z.div_mod b d ltac:(lia)) as Eb.
  pose proof (Z.mod_pos_bound a d Hd) as Ba.
  rewrite Ha in Eb.
  assert (a / d < b / d) by nia.
  assert (d * (a / d) + d <= d * (b / d)) by nia.
  subst a b. lia.
Qed.

Lemma round_aligned t d : 0 < d -> aligned d (round_t t d).
Proof.
  intros Hd. unfold aligned, round_t.
  destruct (Z.leb_spec d 0) as [H|H]; [lia|].
  set (a := t + epoch_off).
  destruct (Z.ltb_spec (a mod d + a mod d) d) as [Hh|Hh].
  - replace (t - a mod d + epoch_off) with (a - a mod d) by (subst a; lia).
    rewrite Zminus_mod, Z.mod_mod, Z.sub_diag by lia. apply Z.mod_0_l; lia.
  - replace (t + (d - a mod d) + epoch_off) with ((a - a mod d) + 1 * d) by (subst a; lia).
    rewrite Z.mod_add by lia.
    rewrite Zminus_mod, Z.mod_mod, Z.sub_diag by lia. apply Z.mod_0_l; lia.
Qed.

Lemma round_close t d : 0 < d -> 2 * Z.abs (round_t t d - t) <= d.
Proof.
  intros Hd. unfold round_t.
  destruct (Z.leb_spec d 0) as [H|H]; [lia|].
  pose proof (Z.mod_pos_bound (t + epoch_off) d Hd).
  destruct (Z.ltb_spec ((t + epoch_off) mod d + (t + epoch_off) mod d) d); lia.
Qed.

Lemma round_mono d t1 t2 : 0 < d -> t1 <= t2 -> round_t t1 d <= round_t t2 d.
Proof.
  intros Hd Hle. unfold round_t.
  destruct (Z.leb_spec d 0) as [H|H]; [lia|].
  set (a := t1 + epoch_off). set (b := t2 + epoch_off).
  assert (Hab : a <= b) by (subst a b; lia).
  pose proof (Z.div_mod a d ltac:(lia)) as Ea.
  pose proof (Z.div_mod b d ltac:(lia)) as Eb.
  pose proof (Z.mod_pos_bound a d Hd) as Ba.
  pose proof (Z.mod_pos_bound b d Hd) as Bb.
  assert (Hq : a / d <= b / d) by (apply Z.div_le_mono; lia).
  assert (t1 = a - epoch_off) by (subst a; lia).
  assert (t2 = b - epoch_off) by (subst b; lia).
  destruct (Z.ltb_spec (a mod d + a mod d) d) as [Ha|Ha];
  destruct (Z.ltb_spec (b mod d + b mod d) d) as [Hb|Hb].
  - (* both down: d*(a/d) <= d*(b/d) *) nia.
  - nia.
  - (* a up, b down: need a/d + 1 <= b/d *)
    assert (a / d < b / d \/ a / d = b / d) as [Hlt|Heq] by lia.
    + nia.
    + exfalso. rewrite Heq in Ea. lia.
  - nia.
Qed.

Lemma engine_stamps_spec timer occ r0 rs :
  engine_stamps timer occ (r0 :: rs) = map (fun r => round_t r (sub_timer timer occ)) rs.
Proof. reflexivity. Qed.

Lemma engine_stamps_aligned timer occ readings s :
  0 < sub_timer timer occ -> In s (engine_stamps timer occ readings) ->
  aligned (sub_timer timer occ) s.
Proof.
  intros Hd Hin. destruct readings as [|r0 rs]; [contradiction|].
  rewrite engine_stamps_spec in Hin. apply in_map_iff in Hin as (r & <- & _).
  apply round_aligned; exact Hd.
Qed.

Lemma map_round_sorted d l : 0 < d -> Sorted Z.le l -> Sorted Z.le (map (fun r => round_t r d) l).
Proof.
  intros Hd Hs. induction Hs as [|a l Hs IH Hhd]; simpl; constructor; auto.
  destruct Hhd as [|b l Hab]; simpl; constructor. apply round_mono; assumption.
Qed.

Lemma engine_stamps_sorted timer occ readings :
  0 < sub_timer timer occ -> Sorted Z.le readings ->
  Sorted Z.le (engine_stamps timer occ readings).
Proof.
  intros Hd Hs. destruct readings as [|r0 rs]; [constructor|].
  rewrite engine_stamps_spec. apply map_round_sorted; [exact Hd|].
  inversion Hs; assumption.
Qed.

Lemma sub_timer_pos timer occ : 0 < occ -> occ <= timer -> 0 < sub_timer timer occ.
Proof.
  intros Ho Ht. unfold sub_timer. destruct (Z.ltb_spec 0 occ); [|lia].
  apply Z.div_str_pos; lia.
Qed.

(* sub-period boundaries are period boundaries' refinement when occ divides timer *)
Lemma sub_timer_divides timer occ : 0 < occ -> (occ | timer) -> timer = occ * sub_timer timer occ.
Proof.
  intros Ho [k Hk]. unfold sub_timer. destruct (Z.ltb_spec 0 occ); [|lia].
  subst timer. rewrite Z.div_mul by lia. lia.
Qed.

(* If the period divides the offset of the Unix epoch (true of every period dividing one
   day), "aligned" is the same as "multiple of the period as a Unix timestamp". *)
Lemma aligned_unix d t : 0 < d -> (d | epoch_off) -> (aligned d t <-> t mod d = 0).
Proof.
  intros Hd [k Hk]. unfold aligned. rewrite Hk. rewrite Z.mod_add by lia. tauto.
Qed.

(* ---- stop protocol ---- *)
Definition einv (s : estate) : Prop :=
  (e_stopped s = false -> e_calls_after_stop s = 0%nat) /\
  (e_stopped s = true -> e_started s = false /\ (e_calls_after_stop s <= 1)%nat /\
                         (e_pc s = PcCall -> e_calls_after_stop s = 0%nat)).

Lemma einv_init : einv einit.
Proof. unfold einv, einit; simpl. split; [reflexivity|discriminate]. Qed.

Lemma einv_step s e : einv s -> einv (estep s e).
Proof.
  unfold einv. intros [Hn Hs]. destruct s as [pc st c sp]; simpl in *.
  destruct e; simpl.
  - destruct pc; simpl.
    + destruct st; simpl; split; intros H; auto.
      * specialize (Hs H) as (Hst & _). discriminate.
      * specialize (Hs H) as (_ & Hc & _). repeat split; auto. discriminate.
    + destruct sp; simpl; split; intros H; try discriminate; auto.
      specialize (Hs eq_refl) as (Hst & Hc & Hz). rewrite (Hz eq_refl).
      repeat split; auto. discriminate.
    + split; intros H; auto. specialize (Hs H) as (Hst & Hc & _). repeat split; auto. discriminate.
    + split; intros H; auto.
  - split; [discriminate|]. intros _. destruct sp.
    + specialize (Hs eq_refl) as (_ & Hc & Hz). repeat split; auto.
    + rewrite (Hn eq_refl). repeat split; auto.
Qed.

Lemma einv_run evs : einv (fold_left estep evs einit).
Proof.
  assert (G : forall s, einv s -> einv (fold_left estep evs s)).
  { induction evs as [|e evs IH]; simpl; intros s Hs; [exact Hs|]. apply IH, einv_step, Hs. }
  apply G, einv_init.
Qed.

Lemma stop_at_most_one_in_flight evs :
  (e_calls_after_stop (fold_left estep evs einit) <= 1)%nat.
Proof.
  destruct (einv_run evs) as [Hn Hs].
  destruct (e_stopped (fold_left estep evs einit)) eqn:E.
  - apply Hs; reflexivity.
  - rewrite (Hn eq_refl). lia.
Qed.

(* no call *begins* after the first started-check that follows Stop: once the engine is
   stopped and is not in the middle of a call, no further call ever completes *)
Lemma stop_no_new_call s evs :
  einv s -> e_stopped s = true -> e_pc s <> PcCall ->
  e_calls_after_stop (fold_left estep evs s) = e_calls_after_stop s.
Proof.
  revert s. induction evs as [|e evs IH]; simpl; intros s Hi Hst Hpc; [reflexivity|].
  destruct Hi as [Hn Hs]. specialize (Hs Hst) as (Hf & Hc & Hz).
  assert (Hi' : einv (estep s e)) by (apply einv_step; split; auto).
  destruct s as [pc st c sp]; simpl in *. subst sp st.
  destruct e; simpl in *.
  - destruct pc; simpl in *; try congruence.
    + rewrite IH; simpl; auto. discriminate.
    + rewrite IH; simpl; auto. discriminate.
    + rewrite IH; simpl; auto.
  - rewrite IH; simpl; auto.
Qed.
