(* SupplyChain_lemmas.v — C01 over a whole chain: coins originate only from the first block and
   from income accrual.

   1. [nominal u]: the exact sum of the initial amounts of the outputs still recorded (unspent)
      in utxosById of the registry [u].
   2. Exact accounting of one UpdateUtxos ([update_accounting]):
        nominal u' + nominal_consumed u txs ts = nominal u + created txs
      where [nominal_consumed] looks every input up in the running registry, just before it is
      consumed. The only well-formedness needed is that utxosById has no key twice ([keys_ok],
      true of every registry reached from the empty one: [replay_keys_ok]).
      - a transaction id already recorded is refused by apply_tx (EDupId), so an update never
        overwrites an entry;
      - when the last live slot of an entry is consumed the whole entry is deleted
        (utxos_registry.go:127-136); the slots dropped with it are zero-valued, non-yielding
        outputs, whose initial amount is 0: [nominal] does not jump;
      - the uint16 index of add_outputs ([mk_utxos]: j mod 65536) is only the number written
        into the utxo; the slot list of an entry holds every output of the transaction at its
        own position whatever their count, and [consume] addresses a slot by position, so more
        than 65536 outputs do not make [nominal] jump either: no bound on the number of outputs
        is needed for the accounting (the wrap matters to utxosByAddress only, which [nominal]
        does not read).
   3. The chain theorem ([chain_supply]): for a chain that replays, whose non-first blocks pass
      verifyBlock against the registers the verification loop holds at that point (the replay of
      the blocks before the previous one: [page_verifiable]), whose rewards have one output and
      whose first block creates at most the genesis amount,
        nominal u + Σ_k face(consumed_k) <= genesis + Σ_k worth(value_fn, ts_k, consumed_k).
      [consumed_k] are the outputs verifyBlock found for the inputs of block k; their initial
      amounts ([face]) are exactly what the application of block k removes from [nominal].
      Hypothesis on ids ([same_id_same_outs]): two transactions of the chain with the same id have
      the same outputs. It follows from pairwise distinct ids ([distinct_ids_same_outs]) and from
      ids computed from the content by an injective function ([content_ids_same_outs], what the
      decoder checks: transaction.go:56-62). Without it the statement is false of the model,
      where an id is a free string: [chain_supply_reused_id_refuted].
   4. [supply_no_income]: when no output is ever worth more than its initial amount,
      nominal u <= genesis. *)
From Coq Require Import Lia ZArith NArith.
From RV Require Import model.Base model.Ledger model.Registry model.Chain model.Sync model.Pool.
From RV Require Import proofs.Pool_lemmas proofs.Sync_lemmas proofs.Chain_verify proofs.Ledger_fee
                       proofs.Accept_lemmas proofs.Ledger_update proofs.Supply_lemmas
                       proofs.Converge_lemmas.
From RV Require proofs.Spend_lemmas.
Local Open Scope N_scope.

(* ------------------------------------------------------------------ *)
(* 0. sums over association lists                                      *)
(* ------------------------------------------------------------------ *)
Section AlistSum.
  Context {V : Type}.
  Variable f : V -> N.

  Definition asum (m : list (string * V)) : N := sumN (map (fun p => f (snd p)) m).

  Lemma asum_nil : asum [] = 0.
  Proof. reflexivity. Qed.

  Lemma asum_cons (k : string) (v : V) (m : list (string * V)) : asum ((k, v) :: m) = f v + asum m.
  Proof. reflexivity. Qed.

  Lemma asum_aset_fresh (k : string) (v : V) (m : list (string * V)) :
    alookup k m = None -> asum (aset k v m) = asum m + f v.
  Proof.
    induction m as [|[k' v'] r IH]; cbn [alookup aset]; intros Hl.
    - rewrite asum_cons, asum_nil. lia.
    - destruct (String.eqb k k') eqn:E; [discriminate Hl|].
      rewrite !asum_cons, (IH Hl). lia.
  Qed.

  Lemma asum_aset_present (k : string) (v v0 : V) (m : list (string * V)) :
    alookup k m = Some v0 -> asum (aset k v m) + f v0 = asum m + f v.
  Proof.
    induction m as [|[k' v'] r IH]; cbn [alookup aset]; intros Hl.
    - discriminate Hl.
    - destruct (String.eqb k k') eqn:E.
      + assert (Ev : v' = v0) by congruence. subst v'. rewrite !asum_cons. lia.
      + rewrite !asum_cons. specialize (IH Hl). lia.
  Qed.

  Lemma aremove_absent (k : string) (m : list (string * V)) :
    ~ In k (map fst m) -> aremove k m = m.
  Proof.
    induction m as [|[k' v'] r IH]; cbn [aremove map fst In]; intros Hn; [reflexivity|].
    destruct (String.eqb k k') eqn:E.
    - apply String.eqb_eq in E. exfalso. apply Hn. left. symmetry. exact E.
    - f_equal. apply IH. intros Hin. apply Hn. right. exact Hin.
  Qed.

  Lemma asum_aremove (k : string) (v0 : V) (m : list (string * V)) :
    NoDup (map fst m) -> alookup k m = Some v0 -> asum (aremove k m) + f v0 = asum m.
  Proof.
    induction m as [|[k' v'] r IH]; cbn [alookup aremove map fst]; intros Hnd Hl.
    - discriminate Hl.
    - inversion Hnd as [|x l Hni Hnd' Ex]; subst x l.
      destruct (String.eqb k k') eqn:E.
      + assert (Ev : v' = v0) by congruence. subst v'.
        apply String.eqb_eq in E. subst k'.
        rewrite (aremove_absent k r Hni), asum_cons. lia.
      + rewrite !asum_cons. specialize (IH Hnd' Hl). lia.
  Qed.
End AlistSum.

(* ------------------------------------------------------------------ *)
(* 1. the nominal supply recorded by a registry                        *)
(* ------------------------------------------------------------------ *)

(* the initial amount of the output a slot of utxosById holds; a consumed slot holds nothing *)
Definition slot_nominal (s : option utxo) : N :=
  match s with Some v => o_val (u_out v) | None => 0 end.

Definition slots_nominal (l : list (option utxo)) : N := sumN (map slot_nominal l).

(* the sum, in exact arithmetic, of the initial amounts of all outputs recorded and unspent *)
Definition nominal (u : ureg) : N := asum slots_nominal (by_id u).

(* the same, spelled out *)
Lemma nominal_unfold (u : ureg) :
  nominal u = sumN (map (fun p => sumN (map slot_nominal (snd p))) (by_id u)).
Proof. reflexivity. Qed.

Lemma nominal_empty : nominal ureg_empty = 0.
Proof. reflexivity. Qed.

(* utxosById has every key once *)
Definition keys_ok (u : ureg) : Prop := NoDup (map fst (by_id u)).

Lemma keys_ok_empty : keys_ok ureg_empty.
Proof. constructor. Qed.

Lemma slots_nominal_cons (s : option utxo) (l : list (option utxo)) :
  slots_nominal (s :: l) = slot_nominal s + slots_nominal l.
Proof. reflexivity. Qed.

Lemma slots_nominal_set_nth (us : list (option utxo)) : forall (n : nat) (s : option utxo),
  nth_error us n = Some s ->
  slots_nominal (set_nth n None us) + slot_nominal s = slots_nominal us.
Proof.
  induction us as [|x r IH]; intros n s Hn.
  - destruct n; discriminate Hn.
  - destruct n as [|n']; cbn [set_nth nth_error] in *.
    + assert (Es : x = s) by congruence. subst x.
      rewrite !slots_nominal_cons. cbn [slot_nominal]. lia.
    + rewrite !slots_nominal_cons. specialize (IH n' s Hn). lia.
Qed.

Lemma slot_dead_nominal (s : option utxo) : slot_live s = false -> slot_nominal s = 0.
Proof.
  destruct s as [v|]; cbn [slot_live slot_nominal]; intros Hd; [|reflexivity].
  apply orb_false_iff in Hd. destruct Hd as [Hv _]. apply N.ltb_ge in Hv. lia.
Qed.

Lemma slots_dead_nominal (us : list (option utxo)) :
  existsb slot_live us = false -> slots_nominal us = 0.
Proof.
  induction us as [|x r IH]; cbn [existsb]; intros Hd; [reflexivity|].
  apply orb_false_iff in Hd. destruct Hd as [Hx Hr].
  rewrite slots_nominal_cons, (slot_dead_nominal x Hx), (IH Hr). reflexivity.
Qed.

Lemma mk_utxos_nominal (id : string) (ts : Z) (l : list output) : forall j : nat,
  slots_nominal (map Some (mk_utxos id ts j l)) = sumN (map o_val l).
Proof.
  induction l as [|o r IH]; intros j; [reflexivity|].
  cbn [mk_utxos map]. rewrite slots_nominal_cons, sumN_cons. cbn [slot_nominal u_out].
  rewrite IH. reflexivity.
Qed.

(* ------------------------------------------------------------------ *)
(* 2. what an update consumes, looked up in the running registry       *)
(* ------------------------------------------------------------------ *)

(* the initial amount of the output the input [i] names in [reg] *)
Definition in_nominal (reg : ureg) (i : input) : N :=
  match find_utxo reg i with Ok v => o_val (u_out v) | Err _ => 0 end.

(* the inputs of one transaction, consumed one after the other *)
Fixpoint ins_nominal (reg : ureg) (l : list input) : N :=
  match l with
  | [] => 0
  | i :: r => in_nominal reg i +
              match consume reg i with Ok reg' => ins_nominal reg' r | Err _ => 0 end
  end.

(* one transaction: its own outputs are recorded first (apply_tx) *)
Definition tx_nominal_consumed (reg : ureg) (t : tx) (ts : Z) : N :=
  match records_outputs t with
  | Ok rec => ins_nominal (mid_reg reg t ts rec) (ins t)
  | Err _ => 0
  end.

(* a list of transactions, applied one after the other *)
Fixpoint nominal_consumed (reg : ureg) (l : list tx) (ts : Z) : N :=
  match l with
  | [] => 0
  | t :: r => tx_nominal_consumed reg t ts +
              match apply_tx reg t ts with Ok reg' => nominal_consumed reg' r ts | Err _ => 0 end
  end.

Lemma consume_nominal (reg : ureg) (i : input) (reg' : ureg) :
  consume reg i = Ok reg' -> keys_ok reg ->
  exists v, find_utxo reg i = Ok v /\
            nominal reg' + o_val (u_out v) = nominal reg /\ keys_ok reg'.
Proof.
  intros Hc Hk. apply consume_inv in Hc. destruct Hc as (us & v & Hus & Hn & _ & Hid).
  exists v. split; [unfold find_utxo; rewrite Hus, Hn; reflexivity|].
  pose proof (slots_nominal_set_nth us _ _ Hn) as Hs. cbn [slot_nominal] in Hs.
  unfold nominal, keys_ok. rewrite Hid.
  destruct (existsb slot_live (set_nth (N.to_nat (i_idx i)) None us)) eqn:Ex.
  - split; [|apply NoDup_keys_aset; exact Hk].
    pose proof (asum_aset_present slots_nominal (i_ref i)
                  (set_nth (N.to_nat (i_idx i)) None us) us (by_id reg) Hus) as Ha.
    lia.
  - split; [|apply NoDup_keys_aremove; exact Hk].
    pose proof (asum_aremove slots_nominal (i_ref i) us (by_id reg) Hk Hus) as Ha.
    pose proof (slots_dead_nominal _ Ex) as Hz.
    lia.
Qed.

Lemma consume_all_nominal (l : list input) : forall reg reg' : ureg,
  consume_all reg l = Ok reg' -> keys_ok reg ->
  nominal reg' + ins_nominal reg l = nominal reg /\ keys_ok reg'.
Proof.
  induction l as [|i r IH]; intros reg reg'; cbn [consume_all ins_nominal].
  - intros E Hk. inversion E; subst reg'. split; [lia|exact Hk].
  - destruct (consume reg i) as [reg1|e] eqn:Ec; [|discriminate].
    intros Hr Hk. destruct (consume_nominal _ _ _ Ec Hk) as (v & Hf & Hn & Hk1).
    destruct (IH _ _ Hr Hk1) as [Hn2 Hk2].
    unfold in_nominal. rewrite Hf. split; [lia|exact Hk2].
Qed.

Lemma records_false_nominal (t : tx) :
  records_outputs t = Ok false -> sumN (map o_val (outs t)) = 0.
Proof.
  unfold records_outputs. destruct (outs t) as [|o [|o2 r]]; [discriminate| |discriminate].
  intros E. assert (Hd : (0 <? o_val o) || o_yield o = false) by congruence.
  apply orb_false_iff in Hd. destruct Hd as [Hv _]. apply N.ltb_ge in Hv.
  cbn [map]. rewrite sumN_cons, sumN_nil. lia.
Qed.

Lemma mid_reg_nominal (reg : ureg) (t : tx) (ts : Z) (rec : bool) :
  alookup (t_id t) (by_id reg) = None -> outs t <> [] -> records_outputs t = Ok rec ->
  keys_ok reg ->
  nominal (mid_reg reg t ts rec) = nominal reg + sumN (map o_val (outs t)) /\
  keys_ok (mid_reg reg t ts rec).
Proof.
  intros Hnone Ho Hrec Hk. destruct rec; cbn [mid_reg].
  - unfold nominal, keys_ok. rewrite (add_outputs_by_id reg t ts Ho).
    split; [|apply NoDup_keys_aset; exact Hk].
    rewrite (asum_aset_fresh slots_nominal _ _ _ Hnone), mk_utxos_nominal. reflexivity.
  - split; [|exact Hk]. rewrite (records_false_nominal t Hrec). lia.
Qed.

Lemma apply_tx_nominal (reg : ureg) (t : tx) (ts : Z) (reg' : ureg) :
  apply_tx reg t ts = Ok reg' -> keys_ok reg ->
  nominal reg' + tx_nominal_consumed reg t ts = nominal reg + sumN (map o_val (outs t)) /\
  keys_ok reg'.
Proof.
  intros Ha Hk. apply apply_tx_inv in Ha. destruct Ha as (Hnone & Ho & rec & Hrec & Hc).
  destruct (mid_reg_nominal reg t ts rec Hnone Ho Hrec Hk) as [Hm Hkm].
  destruct (consume_all_nominal _ _ _ Hc Hkm) as [Hn Hk'].
  unfold tx_nominal_consumed. rewrite Hrec. split; [lia|exact Hk'].
Qed.

Lemma apply_txs_nominal (l : list tx) (ts : Z) : forall reg reg' : ureg,
  apply_txs reg l ts = Ok reg' -> keys_ok reg ->
  nominal reg' + nominal_consumed reg l ts = nominal reg + created l /\ keys_ok reg'.
Proof.
  induction l as [|t r IH]; intros reg reg'; cbn [apply_txs nominal_consumed].
  - intros E Hk. inversion E; subst reg'. rewrite created_nil. split; [lia|exact Hk].
  - destruct (apply_tx reg t ts) as [reg1|e] eqn:Et; [|discriminate].
    intros Hr Hk. destruct (apply_tx_nominal _ _ _ _ Et Hk) as [H1 Hk1].
    destruct (IH _ _ Hr Hk1) as [H2 Hk2].
    rewrite created_cons. split; [lia|exact Hk2].
Qed.

(* EXACT ACCOUNTING of one successful UpdateUtxos *)
Theorem update_accounting (u : ureg) (l : list tx) (ts : Z) (u' : ureg) :
  update_utxos u l ts = Ok u' -> keys_ok u ->
  nominal u' + nominal_consumed u l ts = nominal u + created l /\ keys_ok u'.
Proof.
  intros Hu Hk. apply update_utxos_all_or_nothing in Hu. destruct Hu as [Ha _].
  exact (apply_txs_nominal l ts u u' Ha Hk).
Qed.

(* every registry a chain denotes has its keys once *)
Lemma replay_from_keys_ok (l : list block) : forall (u : ureg) (a : areg) (u' : ureg) (a' : areg),
  replay_from u a l = Ok (u', a') -> keys_ok u -> keys_ok u'.
Proof.
  induction l as [|b r IH]; intros u a u' a' Hr Hk.
  - cbn [replay_from] in Hr. inversion Hr; subst u' a'. exact Hk.
  - apply Spend_lemmas.replay_from_cons_inv in Hr. destruct Hr as (u1 & a1 & Hb & Hr).
    apply Spend_lemmas.apply_block_inv in Hb. destruct Hb as [Hu _].
    destruct (update_accounting _ _ _ _ Hu Hk) as [_ Hk1].
    exact (IH _ _ _ _ Hr Hk1).
Qed.

Lemma replay_keys_ok (C : list block) (u : ureg) (a : areg) : replay C = Ok (u, a) -> keys_ok u.
Proof. intros Hr. exact (replay_from_keys_ok C _ _ _ _ Hr keys_ok_empty). Qed.

(* ------------------------------------------------------------------ *)
(* 3. where the recorded outputs come from                             *)
(* ------------------------------------------------------------------ *)

(* every live slot holds the output of [os] at its own position *)
Definition slots_from (slots : list (option utxo)) (os : list output) : Prop :=
  forall (j : nat) (v : utxo), nth_error slots j = Some (Some v) -> nth_error os j = Some (u_out v).

(* every entry of utxosById was made from the outputs of a transaction of [all] with that id *)
Definition origins (all : list tx) (R : ureg) : Prop :=
  forall (id : string) (slots : list (option utxo)),
    alookup id (by_id R) = Some slots ->
    exists t, In t all /\ t_id t = id /\ slots_from slots (outs t).

Lemma origins_empty (all : list tx) : origins all ureg_empty.
Proof. intros id slots Hl. discriminate Hl. Qed.

Lemma set_nth_None_sub {A} (us : list (option A)) : forall (n j : nat) (v : A),
  nth_error (set_nth n None us) j = Some (Some v) -> nth_error us j = Some (Some v).
Proof.
  induction us as [|x r IH]; intros n j v Hj.
  - destruct n; exact Hj.
  - destruct n as [|n'], j as [|j']; cbn [set_nth nth_error] in *.
    + discriminate Hj.
    + exact Hj.
    + exact Hj.
    + exact (IH n' j' v Hj).
Qed.

Lemma consume_origins (all : list tx) (reg : ureg) (i : input) (reg' : ureg) :
  consume reg i = Ok reg' -> origins all reg -> origins all reg'.
Proof.
  intros Hc Ho. apply consume_inv in Hc. destruct Hc as (us & v & Hus & _ & _ & Hid).
  intros id slots Hl. rewrite Hid in Hl.
  destruct (string_dec (i_ref i) id) as [Eq|Ne].
  - subst id. destruct (existsb slot_live (set_nth (N.to_nat (i_idx i)) None us)).
    + rewrite alookup_aset_eq in Hl. assert (Es : slots = set_nth (N.to_nat (i_idx i)) None us) by congruence.
      subst slots. destruct (Ho _ _ Hus) as (t & Hin & Hidt & Hfrom).
      exists t. split; [exact Hin|]. split; [exact Hidt|].
      intros j w Hj. apply Hfrom. exact (set_nth_None_sub us _ _ _ Hj).
    + rewrite alookup_aremove_eq in Hl. discriminate Hl.
  - destruct (existsb slot_live (set_nth (N.to_nat (i_idx i)) None us)).
    + rewrite (alookup_aset_neq _ _ _ _ Ne) in Hl. exact (Ho _ _ Hl).
    + rewrite (alookup_aremove_neq _ _ _ Ne) in Hl. exact (Ho _ _ Hl).
Qed.

Lemma consume_all_origins (all : list tx) (l : list input) : forall reg reg' : ureg,
  consume_all reg l = Ok reg' -> origins all reg -> origins all reg'.
Proof.
  induction l as [|i r IH]; intros reg reg'; cbn [consume_all].
  - intros E Ho. inversion E; subst reg'. exact Ho.
  - destruct (consume reg i) as [reg1|e] eqn:Ec; [|discriminate].
    intros Hr Ho. exact (IH _ _ Hr (consume_origins all _ _ _ Ec Ho)).
Qed.

Lemma mk_utxos_slots_from (id : string) (ts : Z) (l : list output) :
  slots_from (map Some (mk_utxos id ts 0 l)) l.
Proof.
  intros j v Hj. rewrite nth_error_map, mk_utxos_nth in Hj.
  destruct (nth_error l j) as [o|]; cbn [option_map] in Hj; [|discriminate Hj].
  assert (Ev : v = mkUtxo id (N.of_nat (0 + j) mod 65536) o ts) by congruence.
  subst v. reflexivity.
Qed.

Lemma mid_reg_origins (all : list tx) (reg : ureg) (t : tx) (ts : Z) (rec : bool) :
  In t all -> outs t <> [] -> origins all reg -> origins all (mid_reg reg t ts rec).
Proof.
  intros Hin Hne Ho. destruct rec; cbn [mid_reg]; [|exact Ho].
  intros id slots Hl. rewrite (add_outputs_by_id reg t ts Hne) in Hl.
  destruct (string_dec (t_id t) id) as [Eq|Ne].
  - subst id. rewrite alookup_aset_eq in Hl.
    assert (Es : slots = map Some (mk_utxos (t_id t) ts 0 (outs t))) by congruence. subst slots.
    exists t. split; [exact Hin|]. split; [reflexivity|]. apply mk_utxos_slots_from.
  - rewrite (alookup_aset_neq _ _ _ _ Ne) in Hl. exact (Ho _ _ Hl).
Qed.

Lemma apply_tx_origins (all : list tx) (reg : ureg) (t : tx) (ts : Z) (reg' : ureg) :
  In t all -> apply_tx reg t ts = Ok reg' -> origins all reg -> origins all reg'.
Proof.
  intros Hin Ha Ho. apply apply_tx_inv in Ha. destruct Ha as (_ & Hne & rec & _ & Hc).
  exact (consume_all_origins all _ _ _ Hc (mid_reg_origins all reg t ts rec Hin Hne Ho)).
Qed.

Lemma apply_txs_origins (all : list tx) (l : list tx) (ts : Z) : forall reg reg' : ureg,
  incl l all -> apply_txs reg l ts = Ok reg' -> origins all reg -> origins all reg'.
Proof.
  induction l as [|t r IH]; intros reg reg' Hincl; cbn [apply_txs].
  - intros E Ho. inversion E; subst reg'. exact Ho.
  - destruct (apply_tx reg t ts) as [reg1|e] eqn:Et; [|discriminate].
    intros Hr Ho.
    apply (IH reg1 reg' (fun x Hx => Hincl x (or_intror Hx)) Hr).
    exact (apply_tx_origins all _ _ _ _ (Hincl t (or_introl eq_refl)) Et Ho).
Qed.

Lemma replay_from_origins (all : list tx) (l : list block) :
  forall (u : ureg) (a : areg) (u' : ureg) (a' : areg),
    incl (flat_map txs l) all -> replay_from u a l = Ok (u', a') -> origins all u -> origins all u'.
Proof.
  induction l as [|b r IH]; intros u a u' a' Hincl Hr Ho.
  - cbn [replay_from] in Hr. inversion Hr; subst u' a'. exact Ho.
  - apply Spend_lemmas.replay_from_cons_inv in Hr. destruct Hr as (u1 & a1 & Hb & Hr).
    apply Spend_lemmas.apply_block_txs in Hb. cbn [flat_map] in Hincl.
    apply (IH u1 a1 u' a' (fun x Hx => Hincl x (in_or_app _ _ _ (or_intror Hx))) Hr).
    exact (apply_txs_origins all _ _ _ _ (fun x Hx => Hincl x (in_or_app _ _ _ (or_introl Hx))) Hb Ho).
Qed.

Lemma replay_origins (all : list tx) (C : list block) (u : ureg) (a : areg) :
  incl (flat_map txs C) all -> replay C = Ok (u, a) -> origins all u.
Proof. intros Hincl Hr. exact (replay_from_origins all C _ _ _ _ Hincl Hr (origins_empty all)). Qed.

(* the output found under a reference is the one a transaction of [all] with that id lists there *)
Lemma find_origin (all : list tx) (R : ureg) (i : input) (v : utxo) :
  origins all R -> find_utxo R i = Ok v ->
  exists t, In t all /\ t_id t = i_ref i /\ nth_error (outs t) (N.to_nat (i_idx i)) = Some (u_out v).
Proof.
  intros Ho Hf. unfold find_utxo in Hf.
  destruct (alookup (i_ref i) (by_id R)) as [us|] eqn:Eus; [|discriminate Hf].
  destruct (nth_error us (N.to_nat (i_idx i))) as [[w|]|] eqn:En; try discriminate Hf.
  assert (Ew : w = v) by congruence. subst w.
  destruct (Ho _ _ Eus) as (t & Hin & Hid & Hfrom).
  exists t. split; [exact Hin|]. split; [exact Hid|]. exact (Hfrom _ _ En).
Qed.

(* ------------------------------------------------------------------ *)
(* 4. list helpers for the chain induction                             *)
(* ------------------------------------------------------------------ *)
Lemma snoc_case {A} (l : list A) : l = [] \/ exists (X : list A) (p : A), l = X ++ [p].
Proof.
  induction l as [|x r _] using rev_ind; [left; reflexivity|].
  right. exists r, x. reflexivity.
Qed.

Lemma tl_snoc {A} (l : list A) (x : A) : l <> [] -> tl (l ++ [x]) = tl l ++ [x].
Proof. destruct l as [|y r]; [congruence|reflexivity]. Qed.

Lemma tl_length_snoc {A} (X : list A) (p : A) : length (tl (X ++ [p])) = length X.
Proof.
  destruct X as [|y r]; [reflexivity|]. cbn [app tl]. rewrite app_length. cbn [length]. lia.
Qed.

(* the initial amounts of the outputs [uss] (one list per transaction), exactly *)
Definition face (uss : list (list utxo)) : N :=
  sumN (map (fun u => o_val (u_out u)) (List.concat uss)).

Lemma face_nil : face [] = 0.
Proof. reflexivity. Qed.

Lemma face_cons (us : list utxo) (uss : list (list utxo)) :
  face (us :: uss) = sumN (map (fun u => o_val (u_out u)) us) + face uss.
Proof. unfold face. cbn [List.concat]. rewrite map_app, sumN_app. reflexivity. Qed.

(* two transactions with the same id list the same outputs *)
Definition same_id_same_outs (all : list tx) : Prop :=
  forall t1 t2 : tx, In t1 all -> In t2 all -> t_id t1 = t_id t2 -> outs t1 = outs t2.

Lemma distinct_ids_same_outs (all : list tx) : NoDup (map t_id all) -> same_id_same_outs all.
Proof.
  intros Hnd t1 t2 H1 H2 He. rewrite (NoDup_map_inj_in t_id all t1 t2 Hnd H1 H2 He). reflexivity.
Qed.

(* ids computed from the content by a function that is injective on the contents at hand *)
Lemma content_ids_same_outs (gen_id : slice input -> slice output -> Z -> string) (all : list tx) :
  (forall t, In t all -> t_id t = gen_id (t_ins t) (t_outs t) (t_ts t)) ->
  (forall t1 t2, In t1 all -> In t2 all ->
     gen_id (t_ins t1) (t_outs t1) (t_ts t1) = gen_id (t_ins t2) (t_outs t2) (t_ts t2) ->
     t_outs t1 = t_outs t2) ->
  same_id_same_outs all.
Proof.
  intros Hid Hinj t1 t2 H1 H2 He. unfold outs.
  rewrite (Hinj t1 t2 H1 H2); [reflexivity|]. rewrite <- (Hid t1 H1), <- (Hid t2 H2). exact He.
Qed.

Lemma same_id_same_outs_incl (l all : list tx) :
  incl l all -> same_id_same_outs all -> same_id_same_outs l.
Proof. intros Hi Hs t1 t2 H1 H2 He. exact (Hs t1 t2 (Hi _ H1) (Hi _ H2) He). Qed.

(* two registries built from transactions of [all]: the outputs they hold under one reference
   carry the same amount (their timestamps may differ: the entry may have been made anew) *)
Lemma find_same_out (all : list tx) (R1 R2 : ureg) (i : input) (v1 v2 : utxo) :
  same_id_same_outs all -> origins all R1 -> origins all R2 ->
  find_utxo R1 i = Ok v1 -> find_utxo R2 i = Ok v2 -> u_out v1 = u_out v2.
Proof.
  intros Hs Ho1 Ho2 Hf1 Hf2.
  destruct (find_origin all R1 i v1 Ho1 Hf1) as (t1 & Hin1 & Hid1 & Hn1).
  destruct (find_origin all R2 i v2 Ho2 Hf2) as (t2 & Hin2 & Hid2 & Hn2).
  assert (Eo : outs t1 = outs t2) by (apply (Hs t1 t2 Hin1 Hin2); congruence).
  rewrite Eo in Hn1. congruence.
Qed.

(* ------------------------------------------------------------------ *)
(* 5. what verifyBlock found is what the application removes           *)
(* ------------------------------------------------------------------ *)
Section Link.
  Variable addr_of : string -> string.
  Variable all : list tx.
  Variable Rv : ureg.                      (* the registry verifyBlock consulted *)
  Hypothesis Hsame : same_id_same_outs all.
  Hypothesis Hov : origins all Rv.

  Lemma ins_nominal_link (l : list input) : forall (R R' : ureg) (us : list utxo),
    consume_all R l = Ok R' -> origins all R ->
    Forall2 (fun i u => find_utxo Rv i = Ok u /\ o_addr (u_out u) = addr_of (i_key i)) l us ->
    ins_nominal R l = sumN (map (fun u => o_val (u_out u)) us).
  Proof.
    induction l as [|i r IH]; intros R R' us; cbn [consume_all ins_nominal]; intros Hc Ho HF.
    - inversion HF; subst. reflexivity.
    - destruct (consume R i) as [R1|e] eqn:Ec; [|discriminate Hc].
      inversion HF as [|i0 u0 r0 us0 [Hfv _] HF' E1 E2]; subst i0 r0 us.
      destruct (consume_needs_existing _ _ _ Ec) as [w Hw].
      unfold in_nominal. rewrite Hw.
      rewrite (find_same_out all R Rv i w u0 Hsame Ho Hov Hw Hfv).
      cbn [map]. rewrite sumN_cons.
      rewrite (IH R1 R' us0 Hc (consume_origins all _ _ _ Ec Ho) HF'). reflexivity.
  Qed.

  Lemma nominal_consumed_link (ts : Z) (l : list tx) : forall (R R' : ureg) (uss : list (list utxo)),
    incl l all -> apply_txs R l ts = Ok R' -> origins all R ->
    Forall2 (fun t us => spends addr_of Rv t us) (filter (fun t => negb (is_reward t)) l) uss ->
    nominal_consumed R l ts = face uss.
  Proof.
    induction l as [|t r IH]; intros R R' uss Hincl; cbn [apply_txs nominal_consumed filter];
      intros Ha Ho HF.
    - inversion HF; subst. reflexivity.
    - destruct (apply_tx R t ts) as [R1|e] eqn:Et; [|discriminate Ha].
      assert (Hin : In t all) by (apply Hincl; left; reflexivity).
      assert (Hincl' : incl r all) by (intros x Hx; apply Hincl; right; exact Hx).
      pose proof (apply_tx_origins all _ _ _ _ Hin Et Ho) as Ho1.
      pose proof Et as Et'. apply apply_tx_inv in Et'. destruct Et' as (_ & Hne & rec & Hrec & Hc).
      unfold tx_nominal_consumed. rewrite Hrec.
      destruct (is_reward t) eqn:Er; cbn [negb] in HF.
      + assert (Ei : ins t = []).
        { unfold is_reward in Er. destruct (ins t); [reflexivity|discriminate Er]. }
        rewrite Ei. cbn [ins_nominal]. rewrite (IH R1 R' uss Hincl' Ha Ho1 HF). lia.
      + inversion HF as [|t0 us0 r0 uss0 Hsp HF' E1 E2]; subst t0 r0 uss.
        rewrite (ins_nominal_link (ins t) _ _ us0 Hc (mid_reg_origins all R t ts rec Hin Hne Ho) Hsp).
        rewrite (IH R1 R' uss0 Hincl' Ha Ho1 HF'), face_cons. reflexivity.
  Qed.
End Link.

(* ------------------------------------------------------------------ *)
(* 6. the chain theorem                                                *)
(* ------------------------------------------------------------------ *)
Section SupplyChain.
  Variable value_fn : N -> bool -> Z -> N.
  Variable addr_of : string -> string.
  Variable sig_ok : input -> bool.
  Variable St : settings.

  Local Notation PV := (page_verifiable value_fn addr_of sig_ok St).
  Local Notation WORTH := (worth value_fn).

  (* the first block is not verified by anyone (blockchain.go:366): it is the trusted root *)
  Definition genesis_bounded (C : list block) : Prop :=
    match C with g :: _ => created (txs g) <= s_genesis St | [] => True end.

  (* [W] lists, for every block [b] but the first, the outputs verifyBlock found for the inputs of
     its ordinary transactions ([uss], one list per transaction) in the registers it consulted:
     the replay of the blocks before the previous one. Their initial amounts are exactly what the
     application of [b] removes from the nominal supply. *)
  Definition chain_witness (C : list block) (W : list (block * list (list utxo))) : Prop :=
    map fst W = tl C /\
    forall (j : nat) (b : block) (uss : list (list utxo)),
      nth_error W j = Some (b, uss) ->
      exists (X : list block) (p : block) (T : list block) (uX : ureg) (aX : areg)
             (u1 : ureg) (a1 : areg) (u2 : ureg) (a2 : areg),
        C = X ++ p :: b :: T /\ length X = j /\
        replay X = Ok (uX, aX) /\
        replay (X ++ [p]) = Ok (u1, a1) /\
        replay (X ++ [p; b]) = Ok (u2, a2) /\
        Forall2 (fun t us => spends addr_of uX t us) (ordinary b) uss /\
        nominal u2 + face uss = nominal u1 + created (txs b).

  Definition faces (W : list (block * list (list utxo))) : N :=
    sumN (map (fun w => face (snd w)) W).
  Definition worths (W : list (block * list (list utxo))) : N :=
    sumN (map (fun w => WORTH (b_ts (fst w)) (snd w)) W).

  Lemma page_verifiable_prefix (now : Z) (C : list block) (b : block) : PV now (C ++ [b]) -> PV now C.
  Proof.
    intros Hpv X p b0 T u a E Hr. apply (Hpv X p b0 (T ++ [b]) u a); [|exact Hr].
    rewrite E, <- app_assoc. reflexivity.
  Qed.

  Theorem chain_supply (now : Z) (C : list block) : forall (u : ureg) (a : areg),
    replay C = Ok (u, a) ->
    PV now C ->
    Forall (fun b => Forall reward_single (txs b)) (tl C) ->
    genesis_bounded C ->
    same_id_same_outs (flat_map txs C) ->
    exists W : list (block * list (list utxo)),
      chain_witness C W /\
      nominal u + faces W <= s_genesis St + worths W.
  Proof.
    induction C as [|b C' IH] using rev_ind; intros u a Hr Hpv Hshape Hgen Hsame.
    - (* the empty chain *)
      cbn in Hr. inversion Hr; subst u a. exists []. split.
      + split; [reflexivity|]. intros j b uss Hj. destruct j; discriminate Hj.
      + unfold faces, worths. cbn [map]. rewrite sumN_nil, nominal_empty. lia.
    - pose proof Hr as Hr0. unfold replay in Hr.
      apply replay_from_snoc_inv in Hr. destruct Hr as (u1 & a1 & Hr1 & Hb).
      fold (replay C') in Hr1.
      pose proof (Spend_lemmas.apply_block_inv _ _ _ _ _ Hb) as [Hu _].
      pose proof (replay_keys_ok C' u1 a1 Hr1) as Hk1.
      destruct (update_accounting _ _ _ _ Hu Hk1) as [Hacc _].
      destruct (snoc_case C') as [E|(X & p & E)]; subst C'.
      + (* the first block *)
        cbn in Hr1. inversion Hr1; subst u1 a1. cbn [app genesis_bounded] in Hgen.
        exists []. split.
        * split; [reflexivity|]. intros j b0 uss Hj. destruct j; discriminate Hj.
        * unfold faces, worths. cbn [map]. rewrite sumN_nil. rewrite nominal_empty in Hacc. lia.
      + (* a block [b] after [X ++ [p]] *)
        assert (Hne : X ++ [p] <> []) by (destruct X; discriminate).
        rewrite (tl_snoc (X ++ [p]) b Hne) in Hshape. apply Forall_app in Hshape.
        destruct Hshape as [Hshape' Hshb]. inversion Hshb as [|b0 l0 Hsb _ E0]; subst b0 l0.
        assert (Hgen' : genesis_bounded (X ++ [p])).
        { destruct X as [|g X']; cbn [app genesis_bounded] in *; exact Hgen. }
        assert (Hsub : incl (flat_map txs (X ++ [p])) (flat_map txs ((X ++ [p]) ++ [b]))).
        { intros x Hx. rewrite flat_map_app. apply in_or_app. left. exact Hx. }
        destruct (IH u1 a1 Hr1 (page_verifiable_prefix now _ b Hpv) Hshape' Hgen'
                     (same_id_same_outs_incl _ _ Hsub Hsame)) as (W' & [HW1 HW2] & Hineq).
        (* the registers verifyBlock consulted *)
        pose proof Hr1 as Hr1'. unfold replay in Hr1'.
        apply replay_from_snoc_inv in Hr1'. destruct Hr1' as (uX & aX & HrX & _).
        fold (replay X) in HrX.
        assert (Hv : verify_block value_fn addr_of sig_ok St (mkC (X ++ [p]) uX aX) b (b_ts p) now = Ok tt).
        { apply (Hpv X p b [] uX aX); [|exact HrX]. rewrite <- app_assoc. reflexivity. }
        destruct (block_conservation_adopted value_fn addr_of sig_ok St _ _ _ _ Hv Hsb)
          as (uss & Hsp & Hle).
        cbn [ur] in Hsp.
        (* the link *)
        set (all := flat_map txs ((X ++ [p]) ++ [b])) in *.
        assert (HoX : origins all uX).
        { apply (replay_origins all X uX aX); [|exact HrX].
          intros x Hx. unfold all. rewrite !flat_map_app. apply in_or_app. left.
          apply in_or_app. left. exact Hx. }
        assert (Ho1 : origins all u1) by (exact (replay_origins all _ u1 a1 Hsub Hr1)).
        assert (Hinb : incl (txs b) all).
        { intros x Hx. unfold all. rewrite flat_map_app. apply in_or_app. right.
          cbn [flat_map]. rewrite app_nil_r. exact Hx. }
        pose proof (Spend_lemmas.apply_block_txs _ _ _ _ _ Hb) as Hab.
        pose proof (nominal_consumed_link addr_of all uX Hsame HoX (b_ts b) (txs b) u1 u uss
                      Hinb Hab Ho1 Hsp) as Hlink.
        rewrite Hlink in Hacc.
        exists (W' ++ [(b, uss)]). split.
        * split.
          { rewrite map_app, HW1, (tl_snoc (X ++ [p]) b Hne). reflexivity. }
          intros j b0 uss0 Hj.
          assert (HlW : length W' = length X).
          { rewrite <- (map_length fst W'), HW1. apply tl_length_snoc. }
          destruct (Nat.lt_ge_cases j (length W')) as [Hlt|Hge].
          { rewrite (nth_error_app1 _ _ Hlt) in Hj.
            destruct (HW2 j b0 uss0 Hj)
              as (X0 & p0 & T0 & uX0 & aX0 & v1 & c1 & v2 & c2 & EC & Hlen & H1 & H2 & H3 & H4 & H5).
            exists X0, p0, (T0 ++ [b]), uX0, aX0, v1, c1, v2, c2.
            split; [rewrite EC, <- app_assoc; reflexivity|].
            split; [exact Hlen|]. split; [exact H1|]. split; [exact H2|]. split; [exact H3|].
            split; [exact H4|exact H5]. }
          { rewrite (nth_error_app2 _ _ Hge) in Hj.
            destruct (j - length W')%nat as [|k] eqn:Ej; [|destruct k; discriminate Hj].
            cbn [nth_error] in Hj. assert (Eb : b0 = b) by congruence.
            assert (Eu : uss0 = uss) by congruence. subst b0 uss0.
            exists X, p, [], uX, aX, u1, a1, u, a.
            split; [rewrite <- app_assoc; reflexivity|].
            split; [lia|]. split; [exact HrX|]. split; [exact Hr1|].
            split; [change (X ++ [p; b]) with (X ++ [p] ++ [b]); rewrite app_assoc; exact Hr0|].
            split; [exact Hsp|exact Hacc]. }
        * unfold faces, worths in *. rewrite !map_app, !sumN_app. cbn [map fst snd].
          rewrite !sumN_cons, !sumN_nil. lia.
  Qed.

  (* a pure-decay economy: no output is ever worth more than its initial amount *)
  Lemma utxo_value_le_face (u : utxo) (t : Z) :
    (forall v y e, value_fn v y e <= v) -> utxo_value value_fn u t <= o_val (u_out u).
  Proof.
    intros Hd. unfold utxo_value. destruct (t =? u_ts u)%Z; [lia|apply Hd].
  Qed.

  Lemma worth_le_face (ts : Z) (uss : list (list utxo)) :
    (forall v y e, value_fn v y e <= v) -> WORTH ts uss <= face uss.
  Proof.
    intros Hd. unfold worth, face. induction (List.concat uss) as [|x r IH]; cbn [map].
    - rewrite !sumN_nil. lia.
    - rewrite !sumN_cons. pose proof (utxo_value_le_face x ts Hd). lia.
  Qed.

  Lemma worths_le_faces (W : list (block * list (list utxo))) :
    (forall v y e, value_fn v y e <= v) -> worths W <= faces W.
  Proof.
    intros Hd. unfold worths, faces. induction W as [|w r IH]; cbn [map].
    - rewrite !sumN_nil. lia.
    - rewrite !sumN_cons. pose proof (worth_le_face (b_ts (fst w)) (snd w) Hd). lia.
  Qed.

  Theorem supply_no_income (now : Z) (C : list block) (u : ureg) (a : areg) :
    (forall v y e, value_fn v y e <= v) ->
    replay C = Ok (u, a) ->
    PV now C ->
    Forall (fun b => Forall reward_single (txs b)) (tl C) ->
    genesis_bounded C ->
    same_id_same_outs (flat_map txs C) ->
    nominal u <= s_genesis St.
  Proof.
    intros Hd Hr Hpv Hshape Hgen Hsame.
    destruct (chain_supply now C u a Hr Hpv Hshape Hgen Hsame) as (W & _ & Hineq).
    pose proof (worths_le_faces W Hd). lia.
  Qed.
End SupplyChain.

(* ------------------------------------------------------------------ *)
(* 7. concrete chains                                                  *)
(* ------------------------------------------------------------------ *)

(* page_verifiable of a concrete chain, position by position *)
Ltac pv_position Hp Hb Hr :=
  cbn [nth_error] in Hp, Hb;
  inversion Hp; inversion Hb; subst;
  vm_compute in Hr; inversion Hr; subst;
  vm_compute; reflexivity.

(* the shape of the rewards, decided *)
Definition reward_single_b (t : tx) : bool := negb (is_reward t) || Nat.leb (length (outs t)) 1.

Lemma reward_single_decide (l : list block) :
  forallb (fun b => forallb reward_single_b (txs b)) l = true ->
  Forall (fun b => Forall reward_single (txs b)) l.
Proof.
  intros Hall. apply Forall_forall. intros b Hb. apply Forall_forall. intros t Ht Hr.
  rewrite forallb_forall in Hall. specialize (Hall b Hb).
  rewrite forallb_forall in Hall. specialize (Hall t Ht).
  unfold reward_single_b in Hall. rewrite Hr in Hall. cbn [negb orb] in Hall.
  apply Nat.leb_le. exact Hall.
Qed.

Ltac distinct_strings :=
  repeat (constructor; [cbn [In]; intuition discriminate|]); constructor.

Module SupplyChainExample.
  Import AcceptExample.
  Local Open Scope string_scope.

  (* the chain of AcceptExample: the genesis block pays A 100 and B 50, the second block is empty
     (a reward of 0), the third holds the transfer t0 (A's 100 and B's 50 in; 120 to C, 20 to A)
     and a reward of the 10 left over. Genesis amount 150. *)
  Definition Sy : settings := mkSettings 10 1 150 8.
  Definition E : list block := [g; e1; b2].
  Definition ex_u : ureg := match replay E with Ok (u, _) => u | Err _ => ureg_empty end.
  Definition ex_W : list (block * list (list utxo)) := [(e1, []); (b2, [[uA; uB]])].

  Lemma ex_replay : replay E = Ok (ex_u, areg_empty).
  Proof. vm_compute. reflexivity. Qed.

  Lemma ex_pv : page_verifiable vf ao so Sy 100 E.
  Proof.
    apply page_verifiable_nth. intros j p b u a Hp Hb Hr.
    destruct j as [|[|j]].
    - pv_position Hp Hb Hr.
    - pv_position Hp Hb Hr.
    - cbn [nth_error] in Hb. destruct j; discriminate Hb.
  Qed.

  Lemma ex_shape : Forall (fun b => Forall reward_single (txs b)) (tl E).
  Proof. apply reward_single_decide. vm_compute. reflexivity. Qed.

  Lemma ex_genesis : genesis_bounded Sy E.
  Proof. vm_compute. discriminate. Qed.

  Lemma ex_ids : same_id_same_outs (flat_map txs E).
  Proof. apply distinct_ids_same_outs. vm_compute. distinct_strings. Qed.

  Lemma ex_witness : chain_witness ao E ex_W.
  Proof.
    split; [reflexivity|]. intros j b uss Hj. destruct j as [|[|j]].
    - cbn [nth_error ex_W] in Hj. inversion Hj; subst b uss.
      exists [], g, [b2]. do 6 eexists.
      split; [reflexivity|]. split; [reflexivity|].
      split; [vm_compute; reflexivity|]. split; [vm_compute; reflexivity|].
      split; [vm_compute; reflexivity|]. split; [vm_compute; constructor|].
      vm_compute. reflexivity.
    - cbn [nth_error ex_W] in Hj. inversion Hj; subst b uss.
      exists [g], e1, []. do 6 eexists.
      split; [reflexivity|]. split; [reflexivity|].
      split; [vm_compute; reflexivity|]. split; [vm_compute; reflexivity|].
      split; [vm_compute; reflexivity|].
      split; [change (ordinary b2) with [t0]; repeat constructor|].
      vm_compute. reflexivity.
    - cbn [nth_error ex_W] in Hj. destruct j; discriminate Hj.
  Qed.

  (* what exists at the end (150) plus the initial amounts destroyed (0 + 150) against the genesis
     amount (150) plus what the consumed outputs were worth when consumed (0 + 150) *)
  Lemma ex_numbers :
    nominal ex_u = 150%N /\ faces ex_W = 150%N /\ s_genesis Sy = 150%N /\ worths vf ex_W = 150%N.
  Proof. repeat split; vm_compute; reflexivity. Qed.
End SupplyChainExample.

(* ---- ids are free strings in the model: a reward that takes the id of a spent entry ---- *)
Module ReusedId.
  Import AcceptExample.
  Local Open Scope string_scope.

  Definition Sq : settings := mkSettings 10 1 100 8.
  (* the first block pays A the genesis amount 100 under the id "G" *)
  Definition q0 : block :=
    mkBlock zero_hash None None 10 (Some [mkTx "G" None (Some [mkOutput "A" false 100]) 10]).
  Definition q1 : block :=
    mkBlock [] None None 20 (Some [mkTx "r20" None (Some [mkOutput "V" false 0]) 20]).
  (* A pays B 99 (fee 1): the entry "G" is deleted; the reward of 1 goes to A under the id "G" *)
  Definition q2 : block :=
    mkBlock [] None None 30
      (Some [mkTx "Y" (Some [mkInput 0 "G" "A" "s"]) (Some [mkOutput "B" false 99]) 25;
             mkTx "G" None (Some [mkOutput "A" false 1]) 30]).
  (* verifyBlock reads the registers of [q0; q1], where ("G", 0) is still worth 100: A pays C 99;
     the application consumes the new ("G", 0), worth 1 *)
  Definition q3 : block :=
    mkBlock [] None None 40
      (Some [mkTx "Z" (Some [mkInput 0 "G" "A" "s"]) (Some [mkOutput "C" false 99]) 35;
             mkTx "r40" None (Some [mkOutput "V" false 1]) 40]).
  Definition Q : list block := [q0; q1; q2; q3].
  Definition q_u : ureg := match replay Q with Ok (u, _) => u | Err _ => ureg_empty end.

  Lemma q_replay : replay Q = Ok (q_u, areg_empty).
  Proof. vm_compute. reflexivity. Qed.

  Lemma q_pv : page_verifiable vf ao so Sq 100 Q.
  Proof.
    apply page_verifiable_nth. intros j p b u a Hp Hb Hr.
    destruct j as [|[|[|j]]].
    - pv_position Hp Hb Hr.
    - pv_position Hp Hb Hr.
    - pv_position Hp Hb Hr.
    - cbn [nth_error] in Hb. destruct j; discriminate Hb.
  Qed.

  Lemma q_shape : Forall (fun b => Forall reward_single (txs b)) (tl Q).
  Proof. apply reward_single_decide. vm_compute. reflexivity. Qed.

  Lemma q_genesis : genesis_bounded Sq Q.
  Proof. vm_compute. discriminate. Qed.

  Lemma q_nominal : nominal q_u = 199%N.
  Proof. vm_compute. reflexivity. Qed.
End ReusedId.

(* Without the hypothesis on ids the chain statement fails, even in an economy where
   value_fn v y e = v: 199 recorded at the end out of a genesis amount of 100. *)
Theorem chain_supply_reused_id_refuted :
  exists (value_fn : N -> bool -> Z -> N) (addr_of : string -> string) (sig_ok : input -> bool)
         (St : settings) (now : Z) (C : list block) (u : ureg) (a : areg),
    (forall v y e, value_fn v y e <= v) /\
    replay C = Ok (u, a) /\
    page_verifiable value_fn addr_of sig_ok St now C /\
    Forall (fun b => Forall reward_single (txs b)) (tl C) /\
    genesis_bounded St C /\
    Forall (fun b => NoDup (map t_id (txs b))) C /\
    s_genesis St < nominal u.
Proof.
  exists AcceptExample.vf, AcceptExample.ao, AcceptExample.so, ReusedId.Sq, 100%Z, ReusedId.Q,
         ReusedId.q_u, areg_empty.
  split; [intros v y e; unfold AcceptExample.vf; lia|].
  split; [exact ReusedId.q_replay|]. split; [exact ReusedId.q_pv|].
  split; [exact ReusedId.q_shape|]. split; [exact ReusedId.q_genesis|].
  split; [constructor; [|constructor; [|constructor; [|constructor; [|constructor]]]];
          vm_compute; distinct_strings|].
  rewrite ReusedId.q_nominal. vm_compute. reflexivity.
Qed.

(* The accounting needs [keys_ok]: deleting an entry deletes every pair with its key. (No registry
   reached from the empty one has a key twice: [replay_keys_ok].) *)
Theorem update_accounting_dup_keys_refuted :
  exists (u : ureg) (l : list tx) (ts : Z) (u' : ureg),
    update_utxos u l ts = Ok u' /\
    nominal u' + nominal_consumed u l ts < nominal u + created l.
Proof.
  exists (mkUreg [] [("X"%string, [Some (mkUtxo "X"%string 0 (mkOutput "A"%string false 5) 0%Z)]);
                     ("X"%string, [Some (mkUtxo "X"%string 0 (mkOutput "A"%string false 7) 0%Z)])]),
         [mkTx "T"%string (Some [mkInput 0 "X"%string "A"%string "s"%string])
               (Some [mkOutput "B"%string false 5]) 0%Z],
         0%Z.
  eexists. split; [vm_compute; reflexivity|]. vm_compute. reflexivity.
Qed.
