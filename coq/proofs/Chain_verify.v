(* Chain_verify.v — local soundness of verifyBlock (model/Chain.v: vb_txs, verify_block).
   The lemmas behind C04 (block rules); with Ledger_fee.v also C01 / C03 at block level. *)
From Coq Require Import Lia ZArith NArith.
From RV Require Import model.Base model.Ledger model.Registry model.Chain proofs.Ledger_fee.
Local Open Scope N_scope.

(* ------------------------------------------------------------ list helpers *)

Lemma filter_len0_false {A} (p : A -> bool) : forall (l : list A) (x : A),
  length (filter p l) = 0%nat -> In x l -> p x = false.
Proof.
  induction l as [|a r IH]; intros x Hlen Hin.
  - destruct Hin.
  - cbn [filter] in Hlen. destruct (p a) eqn:Ea.
    + cbn [length] in Hlen. discriminate Hlen.
    + destruct Hin as [Hx|Hx]; [subst x; exact Ea|apply IH; assumption].
Qed.

Lemma filter_len1_unique {A} (p : A -> bool) : forall (l : list A) (x y : A),
  length (filter p l) = 1%nat -> In x l -> In y l -> p x = true -> p y = true -> x = y.
Proof.
  induction l as [|a r IH]; intros x y Hlen Hx Hy Px Py.
  - destruct Hx.
  - cbn [filter] in Hlen. destruct (p a) eqn:Ea.
    + cbn [length] in Hlen. assert (H0 : length (filter p r) = 0%nat) by lia.
      destruct Hx as [Hx|Hx]; destruct Hy as [Hy|Hy].
      * subst; reflexivity.
      * rewrite (filter_len0_false p r y H0 Hy) in Py. discriminate Py.
      * rewrite (filter_len0_false p r x H0 Hx) in Px. discriminate Px.
      * rewrite (filter_len0_false p r x H0 Hx) in Px. discriminate Px.
    + destruct Hx as [Hx|Hx]; [subst x; rewrite Ea in Px; discriminate Px|].
      destruct Hy as [Hy|Hy]; [subst y; rewrite Ea in Py; discriminate Py|].
      apply IH; assumption.
Qed.

Lemma filter_len1_head {A} (p : A -> bool) (l : list A) :
  length (filter p l) = 1%nat -> exists x, filter p l = [x] /\ In x l /\ p x = true.
Proof.
  intros Hlen. destruct (filter p l) as [|x [|y r]] eqn:Ef; try discriminate Hlen.
  exists x. split; [reflexivity|].
  apply (filter_In p x l). rewrite Ef. left; reflexivity.
Qed.

Section Verify.
  Variable value_fn : N -> bool -> Z -> N.
  Variable addr_of : string -> string.
  Variable sig_ok : input -> bool.
  Variable S : settings.

  Local Notation VB := (vb_txs value_fn addr_of sig_ok S).
  Local Notation CF := (calc_fee value_fn addr_of (s_fee S)).
  Local Notation VBLOCK := (verify_block value_fn addr_of sig_ok S).

  (* B.5 *)
  Lemma verify_sigs_spec (t : tx) :
    verify_sigs sig_ok t = true <-> Forall (fun i => sig_ok i = true) (ins t).
  Proof.
    unfold verify_sigs. rewrite forallb_forall, Forall_forall. tauto.
  Qed.

  Lemma yield_ok_spec (a : areg) (added : list string) (t : tx) :
    yield_ok a added t = true <->
    Forall (fun o => o_yield o = true -> In (o_addr o) added \/ is_registered a (o_addr o) = true) (outs t).
  Proof.
    assert (Hm : forall (x : string) (l : list string), mem_str x l = true <-> In x l).
    { intros x. induction l as [|y r IH]; cbn [mem_str In].
      - split; [discriminate|tauto].
      - destruct (String.eqb_spec x y) as [E|E].
        + subst. tauto.
        + rewrite IH. split; [tauto|]. intros [Hc|Hc]; [congruence|exact Hc]. }
    unfold yield_ok. rewrite forallb_forall, Forall_forall.
    split; intros Hall o Ho; specialize (Hall o Ho).
    - intros Hy. rewrite Hy in Hall. cbn [negb orb] in Hall.
      apply orb_true_iff in Hall. rewrite Hm in Hall. exact Hall.
    - destruct (o_yield o); [|reflexivity]. cbn [negb orb].
      apply orb_true_iff. rewrite Hm. apply Hall. reflexivity.
  Qed.

  (* one step of the loop, inverted *)
  Lemma vb_txs_cons_inv : forall (c : cstate) (added : list string) (cur prev : Z) (t : tx) (r : list tx)
      (rewarded : bool) (reward total : N) (x : bool * N * N),
    VB c added cur prev (t :: r) rewarded reward total = Ok x ->
    (is_reward t = true /\ rewarded = false /\
     VB c added cur prev r true (reward_value t) total = Ok x) \/
    (is_reward t = false /\ (prev <= t_ts t <= cur)%Z /\ verify_sigs sig_ok t = true /\
     yield_ok (ar c) added t = true /\
     exists f, CF (ur c) t cur = Ok f /\
               VB c added cur prev r rewarded reward (add64 total f) = Ok x).
  Proof.
    intros c added cur prev t r rewarded reward total x Hv.
    cbn [vb_txs] in Hv.
    destruct (is_reward t) eqn:Erw.
    - left. destruct rewarded; [discriminate Hv|]. auto.
    - right.
      destruct (Z.ltb_spec cur (t_ts t)) as [H1|H1]; [discriminate Hv|].
      destruct (Z.ltb_spec (t_ts t) prev) as [H2|H2]; [discriminate Hv|].
      destruct (verify_sigs sig_ok t) eqn:Es; cbn [negb] in Hv; [|discriminate Hv].
      destruct (yield_ok (ar c) added t) eqn:Ey; cbn [negb] in Hv; [|discriminate Hv].
      destruct (calc_fee value_fn addr_of (s_fee S) (ur c) t cur) as [f|e] eqn:Ec; [|discriminate Hv].
      split; [reflexivity|]. split; [lia|]. split; [reflexivity|]. split; [reflexivity|].
      exists f. split; [reflexivity|exact Hv].
  Qed.

  (* B.1 *)
  Lemma vb_txs_spec : forall (c : cstate) (added : list string) (cur prev : Z) (l : list tx)
      (rewarded : bool) (reward total : N) (rw' : bool) (r' tot' : N),
    VB c added cur prev l rewarded reward total = Ok (rw', r', tot') ->
    Forall (fun t => is_reward t = false ->
                     (prev <= t_ts t <= cur)%Z /\ verify_sigs sig_ok t = true /\
                     yield_ok (ar c) added t = true /\
                     exists f, CF (ur c) t cur = Ok f) l /\
    length (filter is_reward l) = (if rewarded then 0 else if rw' then 1 else 0)%nat /\
    (rewarded = true -> rw' = true) /\
    (length (filter is_reward l) = 0%nat -> r' = reward) /\
    (forall rt, In rt l -> is_reward rt = true -> r' = reward_value rt) /\
    exists fees : list N,
      Forall2 (fun t f => CF (ur c) t cur = Ok f) (filter (fun t => negb (is_reward t)) l) fees /\
      tot' = fold_left add64 fees total /\
      (total < two64 -> tot' = (total + sumN fees) mod two64) /\
      tot' <= total + sumN fees.
  Proof.
    intros c added cur prev.
    (* the last two clauses follow from the fold *)
    assert (Hfold : forall (fees : list N) (total tot' : N),
              tot' = fold_left add64 fees total ->
              tot' = fold_left add64 fees total /\
              (total < two64 -> tot' = (total + sumN fees) mod two64) /\
              tot' <= total + sumN fees).
    { intros fees total tot' E. split; [exact E|]. split.
      - intros Ht. rewrite E. apply fold_add64_mod, Ht.
      - rewrite E. apply fold_add64_le. }
    induction l as [|t r IH]; intros rewarded reward total rw' r' tot' Hv.
    - cbn [vb_txs] in Hv. inversion Hv; subst rw' r' tot'.
      cbn [filter length].
      split; [constructor|].
      split; [destruct rewarded; reflexivity|].
      split; [intros E; exact E|].
      split; [reflexivity|].
      split; [intros rt []|].
      exists []. split; [constructor|]. apply Hfold. reflexivity.
    - apply vb_txs_cons_inv in Hv.
      destruct Hv as [[Erw [Er Hv]]|[Erw [Hts [Hs [Hy [f [Hf Hv]]]]]]].
      + subst rewarded. apply IH in Hv.
        destruct Hv as [HFa [Hlen [Hrw [Hr0 [Hrt [fees [HF2 [Htot _]]]]]]]].
        specialize (Hrw eq_refl). subst rw'.
        specialize (Hr0 Hlen).
        cbn [filter]. rewrite Erw. cbn [negb length]. rewrite Hlen.
        split; [constructor; [intros Hc; rewrite Erw in Hc; discriminate Hc|exact HFa]|].
        split; [reflexivity|].
        split; [intros Hc; discriminate Hc|].
        split; [intros Hc; discriminate Hc|].
        split.
        * intros rt [Hin|Hin] Hisr; [subst rt; exact Hr0|].
          rewrite (filter_len0_false is_reward r rt Hlen Hin) in Hisr. discriminate Hisr.
        * exists fees. split; [exact HF2|]. apply Hfold. exact Htot.
      + apply IH in Hv.
        destruct Hv as [HFa [Hlen [Hrw [Hr0 [Hrt [fees [HF2 [Htot _]]]]]]]].
        cbn [filter]. rewrite Erw. cbn [negb].
        split; [constructor; [intros _; split; [exact Hts|]; split; [exact Hs|]; split; [exact Hy|];
                              exists f; exact Hf|exact HFa]|].
        split; [exact Hlen|].
        split; [exact Hrw|].
        split; [exact Hr0|].
        split.
        * intros rt [Hin|Hin] Hisr; [subst rt; rewrite Erw in Hisr; discriminate Hisr|].
          apply Hrt; assumption.
        * exists (f :: fees). split; [constructor; [exact Hf|exact HF2]|].
          apply Hfold. cbn [fold_left]. exact Htot.
  Qed.

  (* the errors the loop can report *)
  Lemma vb_txs_err : forall (c : cstate) (added : list string) (cur prev : Z) (l : list tx)
      (rewarded : bool) (reward total : N) (e : err),
    VB c added cur prev l rewarded reward total = Err e ->
    e = EMultiReward \/ e = ETxFuture \/ e = ETxOld \/ e = ESig \/ e = EUnregistered \/
    e = EUnknownId \/ e = ENoIndex \/ e = EOwner \/ e = EOverflow \/ e = ENegFee \/ e = ELowFee.
  Proof.
    intros c added cur prev. induction l as [|t r IH]; intros rewarded reward total e Hv.
    - cbn [vb_txs] in Hv. discriminate Hv.
    - cbn [vb_txs] in Hv.
      destruct (is_reward t) eqn:Erw.
      + destruct rewarded; [inversion Hv; subst; tauto|]. apply IH in Hv. exact Hv.
      + destruct (cur <? t_ts t)%Z; [inversion Hv; subst; tauto|].
        destruct (t_ts t <? prev)%Z; [inversion Hv; subst; tauto|].
        destruct (verify_sigs sig_ok t); cbn [negb] in Hv; [|inversion Hv; subst; tauto].
        destruct (yield_ok (ar c) added t); cbn [negb] in Hv; [|inversion Hv; subst; tauto].
        destruct (calc_fee value_fn addr_of (s_fee S) (ur c) t cur) as [f|e'] eqn:Ec.
        * apply IH in Hv. exact Hv.
        * inversion Hv; subst e'. apply calc_fee_err in Ec. tauto.
  Qed.

  (* completeness of the loop *)
  Lemma vb_txs_complete : forall (c : cstate) (added : list string) (cur prev : Z) (l : list tx)
      (rewarded : bool) (reward total : N) (fees : list N),
    Forall (fun t => is_reward t = false ->
                     (prev <= t_ts t <= cur)%Z /\ verify_sigs sig_ok t = true /\
                     yield_ok (ar c) added t = true) l ->
    Forall2 (fun t f => CF (ur c) t cur = Ok f) (filter (fun t => negb (is_reward t)) l) fees ->
    (length (filter is_reward l) <= (if rewarded then 0 else 1))%nat ->
    VB c added cur prev l rewarded reward total =
    Ok (rewarded || existsb is_reward l,
        match filter is_reward l with rt :: _ => reward_value rt | [] => reward end,
        fold_left add64 fees total).
  Proof.
    intros c added cur prev. induction l as [|t r IH]; intros rewarded reward total fees HFa HF2 Hlen.
    - cbn [filter] in HF2. inversion HF2; subst fees.
      cbn [vb_txs existsb filter fold_left]. rewrite orb_false_r. reflexivity.
    - inversion HFa as [|t0 r0 Ht HFr]; subst t0 r0.
      cbn [vb_txs existsb filter] in *.
      destruct (is_reward t) eqn:Erw.
      + cbn [negb length] in *.
        destruct rewarded; [lia|].
        rewrite (IH true (reward_value t) total fees HFr HF2) by lia.
        destruct (filter is_reward r) as [|y ys] eqn:Efr; [|cbn [length] in Hlen; lia].
        reflexivity.
      + cbn [negb] in *.
        destruct (Ht eq_refl) as [Hts [Hs Hy]].
        inversion HF2 as [|t0 f r0 fees' Hf HF2']; subst t0 r0 fees.
        destruct (Z.ltb_spec cur (t_ts t)) as [H1|H1]; [lia|].
        destruct (Z.ltb_spec (t_ts t) prev) as [H2|H2]; [lia|].
        rewrite Hs, Hy. cbn [negb]. rewrite Hf.
        rewrite (IH rewarded reward (add64 total f) fees' HFr HF2' Hlen).
        cbn [fold_left orb]. reflexivity.
  Qed.

  (* B.2 *)
  Lemma verify_block_sound : forall (c : cstate) (b : block) (prev_ts now : Z),
    VBLOCK c b prev_ts now = Ok tt ->
    b_ts b = (prev_ts + s_interval S)%Z /\
    (b_ts b <= now)%Z /\
    length (filter is_reward (txs b)) = 1%nat /\
    Forall (fun t => is_reward t = false ->
                     (prev_ts <= t_ts t <= b_ts b)%Z /\ verify_sigs sig_ok t = true /\
                     yield_ok (ar c) (elems (b_added b)) t = true) (txs b) /\
    exists (fees : list N) (rt : tx),
      Forall2 (fun t f => CF (ur c) t (b_ts b) = Ok f)
              (filter (fun t => negb (is_reward t)) (txs b)) fees /\
      In rt (txs b) /\ is_reward rt = true /\ reward_value rt <= sumN fees.
  Proof.
    intros c b prev_ts now Hv. unfold verify_block in Hv.
    destruct (Z.eqb_spec (b_ts b) (prev_ts + s_interval S)) as [Et|Et]; cbn [negb] in Hv;
      [|discriminate Hv].
    destruct (Z.ltb_spec now (b_ts b)) as [Hn|Hn]; [discriminate Hv|].
    destruct (vb_txs value_fn addr_of sig_ok S c (elems (b_added b)) (b_ts b) prev_ts (txs b) false 0 0)
      as [[[rw r] tot]|e] eqn:Evb; [|discriminate Hv].
    destruct rw; cbn [negb] in Hv; [|discriminate Hv].
    destruct (N.ltb_spec tot r) as [Hr|Hr]; [discriminate Hv|].
    apply vb_txs_spec in Evb.
    destruct Evb as [HFa [Hlen [_ [_ [Hrt [fees [HF2 [_ [_ Hle]]]]]]]]].
    split; [exact Et|]. split; [exact Hn|]. split; [exact Hlen|].
    split.
    - eapply Forall_impl; [|exact HFa]. intros t Ht Hisr.
      destruct (Ht Hisr) as [H1 [H2 [H3 _]]]. auto.
    - destruct (filter_len1_head is_reward (txs b) Hlen) as [rt [_ [Hin Hisr]]].
      exists fees, rt. split; [exact HF2|]. split; [exact Hin|]. split; [exact Hisr|].
      rewrite <- (Hrt rt Hin Hisr). lia.
  Qed.

  (* B.3 *)
  Lemma verify_block_complete : forall (c : cstate) (b : block) (prev_ts now : Z) (fees : list N) (rt : tx),
    b_ts b = (prev_ts + s_interval S)%Z ->
    (b_ts b <= now)%Z ->
    length (filter is_reward (txs b)) = 1%nat ->
    Forall (fun t => is_reward t = false ->
                     (prev_ts <= t_ts t <= b_ts b)%Z /\ verify_sigs sig_ok t = true /\
                     yield_ok (ar c) (elems (b_added b)) t = true) (txs b) ->
    Forall2 (fun t f => CF (ur c) t (b_ts b) = Ok f)
            (filter (fun t => negb (is_reward t)) (txs b)) fees ->
    In rt (txs b) -> is_reward rt = true -> reward_value rt <= sumN fees ->
    sumN fees < two64 ->
    VBLOCK c b prev_ts now = Ok tt.
  Proof.
    intros c b prev_ts now fees rt Et Hn Hlen HFa HF2 Hin Hisr Hrv Hsum.
    unfold verify_block.
    destruct (Z.eqb_spec (b_ts b) (prev_ts + s_interval S)) as [_|Et']; [|contradiction].
    cbn [negb].
    destruct (Z.ltb_spec now (b_ts b)) as [Hn'|_]; [lia|].
    rewrite (vb_txs_complete c (elems (b_added b)) (b_ts b) prev_ts (txs b) false 0 0 fees HFa HF2)
      by (rewrite Hlen; lia).
    destruct (filter_len1_head is_reward (txs b) Hlen) as [rt' [Efl [Hin' Hisr']]].
    rewrite Efl.
    assert (Ex : existsb is_reward (txs b) = true).
    { apply existsb_exists. exists rt. split; assumption. }
    rewrite Ex. cbn [orb negb].
    rewrite (filter_len1_unique is_reward (txs b) rt' rt Hlen Hin' Hin Hisr' Hisr).
    rewrite (fold_add64_mod fees 0 two64_pos), N.add_0_l, (N.mod_small _ _ Hsum).
    destruct (N.ltb_spec (sumN fees) (reward_value rt)) as [Hc|_]; [lia|reflexivity].
  Qed.

  (* ------------------------------------------------------ B.4 error direction *)

  Lemma verify_block_bad_time : forall (c : cstate) (b : block) (prev_ts now : Z),
    b_ts b <> (prev_ts + s_interval S)%Z ->
    VBLOCK c b prev_ts now = Err ETime.
  Proof.
    intros c b prev_ts now Hne. unfold verify_block.
    destruct (Z.eqb_spec (b_ts b) (prev_ts + s_interval S)) as [E|_]; [contradiction|reflexivity].
  Qed.

  Lemma verify_block_future : forall (c : cstate) (b : block) (prev_ts now : Z),
    b_ts b = (prev_ts + s_interval S)%Z ->
    (now < b_ts b)%Z ->
    VBLOCK c b prev_ts now = Err EFuture.
  Proof.
    intros c b prev_ts now Et Hn. unfold verify_block.
    destruct (Z.eqb_spec (b_ts b) (prev_ts + s_interval S)) as [_|E]; [|contradiction].
    cbn [negb]. destruct (Z.ltb_spec now (b_ts b)) as [_|Hc]; [reflexivity|lia].
  Qed.

  Lemma verify_block_reward_count : forall (c : cstate) (b : block) (prev_ts now : Z),
    length (filter is_reward (txs b)) <> 1%nat ->
    exists e, VBLOCK c b prev_ts now = Err e.
  Proof.
    intros c b prev_ts now Hne.
    destruct (verify_block value_fn addr_of sig_ok S c b prev_ts now) as [u|e] eqn:Ev.
    - destruct u. apply verify_block_sound in Ev. destruct Ev as [_ [_ [Hlen _]]]. contradiction.
    - exists e. reflexivity.
  Qed.

  Lemma verify_block_two_rewards : forall (c : cstate) (b : block) (prev_ts now : Z),
    (2 <= length (filter is_reward (txs b)))%nat ->
    exists e, VBLOCK c b prev_ts now = Err e.
  Proof. intros c b prev_ts now H2. apply verify_block_reward_count. lia. Qed.

  Lemma verify_block_no_reward : forall (c : cstate) (b : block) (prev_ts now : Z),
    length (filter is_reward (txs b)) = 0%nat ->
    exists e, VBLOCK c b prev_ts now = Err e.
  Proof. intros c b prev_ts now H0. apply verify_block_reward_count. lia. Qed.

  (* a reward above the exact fee total is refused *)
  Lemma verify_block_reward_too_big : forall (c : cstate) (b : block) (prev_ts now : Z) (fees : list N) (rt : tx),
    Forall2 (fun t f => CF (ur c) t (b_ts b) = Ok f)
            (filter (fun t => negb (is_reward t)) (txs b)) fees ->
    In rt (txs b) -> is_reward rt = true -> sumN fees < reward_value rt ->
    exists e, VBLOCK c b prev_ts now = Err e.
  Proof.
    intros c b prev_ts now fees rt HF2 Hin Hisr Hbig.
    destruct (verify_block value_fn addr_of sig_ok S c b prev_ts now) as [u|e] eqn:Ev;
      [|exists e; reflexivity].
    destruct u. apply verify_block_sound in Ev.
    destruct Ev as [_ [_ [Hlen [_ [fees' [rt' [HF2' [Hin' [Hisr' Hle]]]]]]]]].
    assert (Efees : fees' = fees).
    { clear -HF2 HF2'. revert fees' HF2'.
      induction HF2 as [|t f l fs Hf _ IH]; intros fees' HF2'.
      - inversion HF2'; reflexivity.
      - inversion HF2' as [|t0 f' l0 fs' Hf' Hr]; subst.
        rewrite Hf in Hf'. inversion Hf'; subst f'. f_equal. apply IH, Hr. }
    subst fees'.
    rewrite (filter_len1_unique is_reward (txs b) rt' rt Hlen Hin' Hin Hisr' Hisr) in Hle. lia.
  Qed.

  (* verifyBlock reports errors, it never panics *)
  Lemma verify_block_err : forall (c : cstate) (b : block) (prev_ts now : Z) (e : err),
    VBLOCK c b prev_ts now = Err e ->
    e = ETime \/ e = EFuture \/ e = ENoReward \/ e = ERewardTooBig \/
    e = EMultiReward \/ e = ETxFuture \/ e = ETxOld \/ e = ESig \/ e = EUnregistered \/
    e = EUnknownId \/ e = ENoIndex \/ e = EOwner \/ e = EOverflow \/ e = ENegFee \/ e = ELowFee.
  Proof.
    intros c b prev_ts now e Hv. unfold verify_block in Hv.
    destruct (negb (b_ts b =? prev_ts + s_interval S)%Z); [inversion Hv; subst; tauto|].
    destruct (now <? b_ts b)%Z; [inversion Hv; subst; tauto|].
    destruct (vb_txs value_fn addr_of sig_ok S c (elems (b_added b)) (b_ts b) prev_ts (txs b) false 0 0)
      as [[[rw r] tot]|e'] eqn:Evb.
    - destruct rw; cbn [negb] in Hv; [|inversion Hv; subst; tauto].
      destruct (tot <? r); [inversion Hv; subst; tauto|discriminate Hv].
    - inversion Hv; subst e'. apply vb_txs_err in Evb. tauto.
  Qed.

  Lemma verify_block_no_panic : forall (c : cstate) (b : block) (prev_ts now : Z) (s : panic_site),
    VBLOCK c b prev_ts now <> Err (EPanic s).
  Proof.
    intros c b prev_ts now s Hv. apply verify_block_err in Hv.
    repeat (destruct Hv as [Hv|Hv]; [discriminate Hv|]). discriminate Hv.
  Qed.
End Verify.
