(* Closed forms of G (model/DecayR.v) in terms of exp and ln only, so that the [interval]
   tactic can enclose the value at concrete points for the correspondence check of C09. *)
From Coq Require Import Reals Lra.
From RV Require Import model.DecayR proofs.DecayR_lemmas.
Local Open Scope R_scope.

Lemma k2_formula B L : 0 < B -> B < L ->
  k2 B L = ln 2 / exp (1 / k1 B L * ln (- ln (1 - B / L))).
Proof.
  intros HB HBL. unfold k2. destruct (Rlt_dec B L) as [_|N]; [|lra].
  rewrite pow0_pos_eq; [reflexivity|].
  assert (0 < L) by lra.
  assert (H1 : 0 < 1 - B / L).
  { pose proof (div_lt_1 B L ltac:(lra) HBL). lra. }
  assert (H2 : 1 - B / L < 1).
  { assert (0 < B / L) by (apply Rdiv_lt_0_compat; lra). lra. }
  pose proof (ln_neg _ H1 H2). lra.
Qed.

Lemma W_pos y L : 0 < y -> y < L -> 0 < - ln ((L - y) / L).
Proof.
  intros Hy HL. assert (0 < L) by lra.
  assert (H1 : 0 < (L - y) / L) by (apply Rdiv_lt_0_compat; lra).
  assert (H2 : (L - y) / L < 1).
  { apply (Rmult_lt_reg_r L); [lra|]. unfold Rdiv. rewrite Rmult_assoc, Rinv_l by lra. lra. }
  pose proof (ln_neg _ H1 H2). lra.
Qed.

Lemma G_formula_pos y x h B L : params_ok h B L -> 0 < y -> y < L -> 0 <= x ->
  G y x h B L =
  L - L * exp (- exp (k1 B L * ln (x * ln 2 / (k2 B L * h)
                                  + exp (1 / k1 B L * ln (- ln ((L - y) / L)))))).
Proof.
  intros P Hy HL Hx. destruct P as (Hh & HB & HBL & Hk).
  rewrite G_lt_eq by exact HL. unfold Gexp.
  pose proof (W_pos y L Hy HL) as HW.
  rewrite (pow0_pos_eq (- ln ((L - y) / L))) by exact HW.
  pose proof (k2_pos B L HB HBL) as Hk2.
  pose proof (step_nonneg (k2 B L) h x Hk2 Hh Hx) as Hs.
  pose proof (exp_pos (1 / k1 B L * ln (- ln ((L - y) / L)))) as He.
  rewrite pow0_pos_eq by lra. reflexivity.
Qed.

Lemma G_formula_zero x h B L : params_ok h B L -> 0 < x ->
  G 0 x h B L = L - L * exp (- exp (k1 B L * ln (x * ln 2 / (k2 B L * h)))).
Proof.
  intros P Hx. destruct P as (Hh & HB & HBL & Hk).
  assert (HL : 0 < L) by lra.
  rewrite G_lt_eq by lra. unfold Gexp.
  replace ((L - 0) / L) with 1 by (field; lra).
  rewrite ln_1, Ropp_0, pow0_0, Rplus_0_r.
  pose proof (k2_pos B L HB HBL) as Hk2.
  assert (0 < x * ln 2 / (k2 B L * h)).
  { apply Rdiv_lt_0_compat; [apply Rmult_lt_0_compat; [lra|apply ln2_pos]|apply Rmult_lt_0_compat; lra]. }
  rewrite pow0_pos_eq by lra. reflexivity.
Qed.
