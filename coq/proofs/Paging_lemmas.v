(* Paging_lemmas.v — Blockchain.Blocks (blockchain.go:59-73), the paging half of C08:
   a page is the contiguous slice c[h .. min (h + limit, n)), and the pages at h, h + limit,
   h + 2 limit, ... put end to end rebuild the chain from h on. The uint64 wrap of h + limit is
   a matter of the page-size setting only; it is exhibited at the end. *)
From RV Require Import model.Base model.Ledger model.Registry model.Chain.
From Coq Require Import Lia ZArith NArith ZifyN ZifyNat ZifyBool.
Ltac Zify.zify_post_hook ::= Z.div_mod_to_equations.

(* ---- list facts (nothing here ever turns a number into unary) ---- *)

Lemma nth_error_skipn_add {A} (a : nat) : forall (l : list A) (j : nat),
  nth_error (skipn a l) j = nth_error l (a + j).
Proof.
  induction a as [|a IH]; intros l j; [reflexivity|].
  destruct l as [|x l]; [destruct j; reflexivity|]. simpl. apply IH.
Qed.

Lemma nth_error_firstn_lt {A} (k : nat) : forall (l : list A) (j : nat),
  j < k -> nth_error (firstn k l) j = nth_error l j.
Proof.
  induction k as [|k IH]; intros l j Hj; [lia|].
  destruct l as [|x l]; [reflexivity|]. destruct j as [|j]; [reflexivity|].
  simpl. apply IH. lia.
Qed.

Lemma skipn_add {A} (a b : nat) : forall (l : list A), skipn (a + b) l = skipn b (skipn a l).
Proof.
  induction a as [|a IH]; intros l; [reflexivity|].
  destruct l as [|x l]; [simpl; rewrite skipn_nil; reflexivity|]. simpl. apply IH.
Qed.

Lemma length_zero_nil {A} (l : list A) : length l = 0 <-> l = [].
Proof. destruct l; simpl; split; intros E; try reflexivity; try discriminate. Qed.

(* the slice c[h .. h + k) cut to the chain *)
Definition page_slice (c : list block) (h k : nat) : list block := firstn k (skipn h c).

Lemma page_slice_length (c : list block) (h k : nat) :
  length (page_slice c h k) = Nat.min k (length c - h).
Proof. unfold page_slice. rewrite firstn_length, skipn_length. reflexivity. Qed.

Section Paging.
  Variable S : settings.
  Notation blocks_page := (blocks_page S).
  Local Open Scope N_scope.

  (* ---- the specification: for every page size that does not make n + limit pass 2^64 ---- *)
  Theorem blocks_page_spec (c : list block) (h : N) :
    N.of_nat (length c) + s_limit S <= two64 ->
    blocks_page c h = Ok (firstn (N.to_nat (s_limit S)) (skipn (N.to_nat h) c)).
  Proof.
    intros Hfit. unfold Chain.blocks_page. cbv zeta.
    destruct (N.eqb_spec (N.of_nat (length c)) 0) as [Hn0|Hn0]; cbn [orb].
    { assert (Hc : c = []) by (apply length_zero_nil; lia). subst c.
      rewrite skipn_nil, firstn_nil. reflexivity. }
    destruct (N.ltb_spec (N.of_nat (length c) - 1) h) as [Hbeyond|Hin]; cbn [orb].
    { rewrite (skipn_all2 c) by lia. rewrite firstn_nil. reflexivity. }
    destruct (N.eqb_spec (s_limit S) 0) as [Hl0|Hl0].
    { rewrite Hl0. reflexivity. }
    assert (Hadd : add64 h (s_limit S) = h + s_limit S).
    { unfold add64. apply N.mod_small. lia. }
    rewrite Hadd.
    destruct (N.ltb_spec (h + s_limit S) (N.of_nat (length c))) as [Hshort|Hlong].
    - destruct (N.ltb_spec (h + s_limit S) h) as [Hw|_]; [lia|].
      replace (h + s_limit S - h) with (s_limit S) by lia. reflexivity.
    - destruct (N.ltb_spec (N.of_nat (length c)) h) as [Hw|_]; [lia|].
      f_equal.
      rewrite (firstn_all2 (n := N.to_nat (N.of_nat (length c) - h))) by (rewrite skipn_length; lia).
      rewrite (firstn_all2 (n := N.to_nat (s_limit S))) by (rewrite skipn_length; lia).
      reflexivity.
  Qed.

  (* ---- facts that hold whenever a page is returned at all, whatever the setting ---- *)

  Lemma blocks_page_ok_slice (c : list block) (h : N) (p : list block) :
    blocks_page c h = Ok p ->
    exists k : nat, p = firstn k (skipn (N.to_nat h) c) /\ N.of_nat k <= s_limit S.
  Proof.
    unfold Chain.blocks_page. cbv zeta. intros Hp.
    destruct ((N.of_nat (length c) =? 0) || (N.of_nat (length c) - 1 <? h) || (s_limit S =? 0)) eqn:Eg.
    { inversion Hp; subst p. exists 0%nat. split; [reflexivity | lia]. }
    apply orb_false_iff in Eg. destruct Eg as [Eg Hl0]. apply orb_false_iff in Eg.
    destruct Eg as [Hn0 Hin]. apply N.eqb_neq in Hn0, Hl0. apply N.ltb_ge in Hin.
    assert (Hmod : add64 h (s_limit S) <= h + s_limit S).
    { unfold add64, two64. lia. }
    destruct (N.ltb_spec (add64 h (s_limit S)) (N.of_nat (length c))) as [Hshort|Hlong].
    - destruct (N.ltb_spec (add64 h (s_limit S)) h) as [Hw|Hnw]; [discriminate|].
      inversion Hp; subst p. eexists. split; [reflexivity|]. lia.
    - destruct (N.ltb_spec (N.of_nat (length c)) h) as [Hw|Hnw]; [discriminate|].
      inversion Hp; subst p. eexists. split; [reflexivity|]. lia.
  Qed.

  (* never more than the page size *)
  Theorem page_length_le (c : list block) (h : N) (p : list block) :
    blocks_page c h = Ok p -> N.of_nat (length p) <= s_limit S.
  Proof.
    intros Hp. destruct (blocks_page_ok_slice _ _ _ Hp) as (k & Hk & Hle). subst p.
    pose proof (firstn_le_length k (skipn (N.to_nat h) c)) as Hf.
    rewrite firstn_length. rewrite firstn_length in Hf. lia.
  Qed.

  (* element j of the page is element h + j of the chain: no skip, no repeat, no reorder *)
  Theorem page_nth (c : list block) (h : N) (p : list block) (j : nat) :
    blocks_page c h = Ok p -> (j < length p)%nat ->
    nth_error p j = nth_error c (N.to_nat h + j).
  Proof.
    intros Hp Hj. destruct (blocks_page_ok_slice _ _ _ Hp) as (k & Hk & _). subst p.
    rewrite firstn_length in Hj.
    rewrite nth_error_firstn_lt by lia. apply nth_error_skipn_add.
  Qed.

  (* the page is as long as the limit and the chain allow: nothing is withheld *)
  Theorem page_length (c : list block) (h : N) (p : list block) :
    N.of_nat (length c) + s_limit S <= two64 ->
    blocks_page c h = Ok p ->
    N.of_nat (length p) = N.min (s_limit S) (N.of_nat (length c) - h).
  Proof.
    intros Hfit Hp. rewrite (blocks_page_spec c h Hfit) in Hp. inversion Hp; subst p.
    rewrite firstn_length, skipn_length. lia.
  Qed.

  Theorem page_empty_iff (c : list block) (h : N) :
    N.of_nat (length c) + s_limit S <= two64 ->
    (blocks_page c h = Ok [] <->
     (length c = 0%nat \/ N.of_nat (length c) <= h \/ s_limit S = 0)).
  Proof.
    intros Hfit. rewrite (blocks_page_spec c h Hfit).
    pose proof (page_slice_length c (N.to_nat h) (N.to_nat (s_limit S))) as Hlen.
    unfold page_slice in Hlen. split.
    - intros E. inversion E as [E']. rewrite E' in Hlen. simpl in Hlen. lia.
    - intros Hc. f_equal. apply length_zero_nil. lia.
  Qed.

  (* no panic for such a setting *)
  Theorem blocks_page_no_panic (c : list block) (h : N) :
    N.of_nat (length c) + s_limit S <= two64 -> exists p, blocks_page c h = Ok p.
  Proof. intros Hfit. eexists. apply blocks_page_spec. exact Hfit. Qed.

  (* ---- pages end to end ---- *)

  (* the pages requested at h, h + limit, h + 2 limit, ..., [fuel] of them, concatenated *)
  Fixpoint pages_from (fuel : nat) (c : list block) (h : N) : res err (list block) :=
    match fuel with
    | O => Ok []
    | Datatypes.S f =>
      match blocks_page c h with
      | Err e => Err e
      | Ok p => match pages_from f c (h + s_limit S) with
                | Err e => Err e
                | Ok r => Ok (p ++ r)
                end
      end
    end.

  Lemma pages_from_spec (c : list block) :
    0 < s_limit S -> N.of_nat (length c) + s_limit S <= two64 ->
    forall (fuel : nat) (h : N),
      (length c - N.to_nat h <= fuel)%nat ->
      pages_from fuel c h = Ok (skipn (N.to_nat h) c).
  Proof.
    intros Hpos Hfit. induction fuel as [|f IH]; intros h Hfuel; cbn [pages_from].
    - rewrite skipn_all2 by lia. reflexivity.
    - rewrite (blocks_page_spec c h Hfit).
      rewrite IH by lia.
      f_equal.
      replace (N.to_nat (h + s_limit S)) with (N.to_nat h + N.to_nat (s_limit S))%nat by lia.
      rewrite skipn_add. apply firstn_skipn.
  Qed.

  Theorem pages_concat (c : list block) (h : N) :
    0 < s_limit S -> N.of_nat (length c) + s_limit S <= two64 ->
    pages_from (length c) c h = Ok (skipn (N.to_nat h) c).
  Proof. intros Hpos Hfit. apply pages_from_spec; [exact Hpos | exact Hfit | lia]. Qed.

  Corollary pages_rebuild_chain (c : list block) :
    0 < s_limit S -> N.of_nat (length c) + s_limit S <= two64 ->
    pages_from (length c) c 0 = Ok c.
  Proof. intros Hpos Hfit. apply (pages_concat c 0 Hpos Hfit). Qed.

  (* ---- the wrap: a page size that makes h + limit pass 2^64 panics inside the chain ---- *)
  Theorem blocks_page_wrap_panics (c : list block) (h : N) :
    h < two64 -> h < N.of_nat (length c) -> s_limit S < two64 -> two64 <= h + s_limit S ->
    blocks_page c h = Err (EPanic PsSliceBounds).
  Proof.
    intros Hh Hin Hl Hw. unfold Chain.blocks_page. cbv zeta.
    destruct (N.eqb_spec (N.of_nat (length c)) 0) as [Hn0|Hn0]; [lia|]. cbn [orb].
    destruct (N.ltb_spec (N.of_nat (length c) - 1) h) as [Hb|_]; [lia|]. cbn [orb].
    destruct (N.eqb_spec (s_limit S) 0) as [Hl0|_]; [unfold two64 in *; lia|].
    assert (Hadd : add64 h (s_limit S) < h).
    { unfold add64, two64 in *. lia. }
    destruct (N.ltb_spec (add64 h (s_limit S)) (N.of_nat (length c))) as [_|Hge]; [|lia].
    destruct (N.ltb_spec (add64 h (s_limit S)) h) as [_|Hge]; [reflexivity | lia].
  Qed.
End Paging.

(* ---- concrete instances ---- *)
Module PagingExample.
  Definition blk (ts : Z) : block := mkBlock [] None None ts None.
  Definition c3 : list block := [blk 0; blk 10; blk 20].
  Definition c5 : list block := [blk 0; blk 10; blk 20; blk 30; blk 40].
  Definition S2 : settings := mkSettings 10 1 100 2.
  Definition Shuge : settings := mkSettings 10 1 100 (two64 - 1).
End PagingExample.
Import PagingExample.

(* a setting, not an input: with BlocksCountLimit = 2^64 - 1 the request for height 1 of a
   three-block chain computes 1 + limit = 0 and then slices blocks[1:0] *)
Example blocks_page_huge_limit_panics :
  blocks_page Shuge c3 1 = Err (EPanic PsSliceBounds).
Proof. vm_compute. reflexivity. Qed.

Example blocks_page_huge_limit_height0_ok :
  blocks_page Shuge c3 0 = Ok c3.
Proof. vm_compute. reflexivity. Qed.
