(* Listed_lemmas.v — C18 / C07 / C02: an output that Utxos(address) lists can be found when an
   input names it (utxos_registry.go: utxosByAddress vs utxosById, UpdateUtxos lines 108-137).

   FULL STATEMENT ASKED FOR (FALSE of the model and of the Go code, see [listed_findable_all_refuted]):
     for every address a and EVERY u in utxos_of reg a, an input naming (u_ref u, u_idx u) is found.
   A zero-valued NON-yielding output stays in utxosByAddress after the id entry of its transaction
   was deleted (utxos_registry.go:134-136 deletes the id, not the address entries).  What holds is
   the statement for LIVE outputs (initial value > 0 or yielding) — exactly the test of the Go code,
   and exactly what the seeded change F20 ("value == 0 means empty") breaks. *)
From RV Require Import model.Base model.Ledger model.Registry model.Chain model.Sync model.Pool model.Reach.
From RV Require Import proofs.Ledger_update proofs.Ledger_fee proofs.Sync_lemmas proofs.Reach_lemmas proofs.Spend_lemmas.
From Coq Require Import Lia ZArith NArith.
Local Open Scope N_scope.

(* ------------------------------------------------------------------------- *)
(* 1. the property                                                            *)
(* ------------------------------------------------------------------------- *)
(* the input names the output (transaction id, output index); key and signature are arbitrary *)
Definition names (i : input) (u : utxo) : Prop := i_ref i = u_ref u /\ i_idx i = u_idx u.

(* every LIVE output listed for an address is found, with the same output and timestamp *)
Definition listed_findable (reg : ureg) : Prop :=
  forall a u i, In u (utxos_of reg a) -> live_u u = true -> names i u -> find_utxo reg i = Ok u.

(* the unrestricted statement *)
Definition listed_findable_all (reg : ureg) : Prop :=
  forall a u i, In u (utxos_of reg a) -> names i u -> find_utxo reg i = Ok u.

Lemma listed_findable_all_live reg : listed_findable_all reg -> listed_findable reg.
Proof. intros H a u i Hin _ Hn. eapply H; eauto. Qed.

(* it is a consequence of the existing invariant *)
Lemma sound_listed_findable reg : ureg_sound reg -> listed_findable reg.
Proof.
  intros Hs a u i Hin Hl [Hr Hi]. unfold utxos_of in Hin.
  destruct (snd_slot _ Hs _ _ Hin) as [(us & H1 & H2)|Hd]; [|congruence].
  unfold find_utxo. rewrite Hr, Hi, H1, H2. reflexivity.
Qed.

Lemma listed_findable_empty : listed_findable ureg_empty.
Proof. apply sound_listed_findable, ureg_sound_empty. Qed.

(* a dead output that is listed and not found: the unrestricted statement is false even for a
   list of transactions with pairwise distinct, never seen ids *)
Theorem listed_findable_all_refuted :
  exists l ts reg',
    ids_fresh ureg_empty l /\ ids_unseen ureg_empty l /\
    update_utxos ureg_empty l ts = Ok reg' /\ ureg_sound reg' /\ listed_findable reg' /\
    ~ listed_findable_all reg'.
Proof.
  destruct by_addr_iff_by_id_refuted as (l & ts & reg' & a & u & H1 & H2 & H3 & H4 & H5 & H6).
  exists l, ts, reg'. repeat (split; [assumption|]).
  split; [now apply sound_listed_findable|].
  intros Hall. specialize (Hall a u (w_in (u_idx u) (u_ref u)) H5 (conj eq_refl eq_refl)).
  congruence.
Qed.

(* ------------------------------------------------------------------------- *)
(* 2. the invariant over UpdateUtxos and its pieces                           *)
(* ------------------------------------------------------------------------- *)
Theorem add_outputs_listed_findable reg t ts :
  ureg_sound reg -> alookup (t_id t) (by_id reg) = None -> N.of_nat (length (outs t)) < 65536 ->
  tx_compat reg t ->
  ureg_sound (add_outputs reg t ts) /\ listed_findable (add_outputs reg t ts).
Proof.
  intros Hs Hf Hl Hc. assert (H : ureg_sound (add_outputs reg t ts)) by now apply add_outputs_sound.
  split; [exact H|now apply sound_listed_findable].
Qed.

Theorem consume_listed_findable reg i reg' :
  ureg_sound reg -> consume reg i = Ok reg' -> ureg_sound reg' /\ listed_findable reg'.
Proof.
  intros Hs Hc. assert (H : ureg_sound reg') by (eapply consume_sound; eauto).
  split; [exact H|now apply sound_listed_findable].
Qed.

Theorem apply_tx_listed_findable reg t ts reg' :
  ureg_sound reg -> N.of_nat (length (outs t)) < 65536 -> tx_compat reg t ->
  apply_tx reg t ts = Ok reg' -> ureg_sound reg' /\ listed_findable reg'.
Proof.
  intros Hs Hl Hc Ha. assert (H : ureg_sound reg') by (eapply apply_tx_sound; eauto).
  split; [exact H|now apply sound_listed_findable].
Qed.

Theorem update_utxos_listed_findable reg l ts reg' :
  ureg_sound reg -> (forall t, In t l -> N.of_nat (length (outs t)) < 65536) ->
  txs_compat reg l -> update_utxos reg l ts = Ok reg' ->
  ureg_sound reg' /\ listed_findable reg'.
Proof.
  intros Hs Hl Hc Hu. assert (H : ureg_sound reg') by (eapply update_utxos_sound; eauto).
  split; [exact H|now apply sound_listed_findable].
Qed.

(* ------------------------------------------------------------------------- *)
(* 3. replayed chains                                                         *)
(* ------------------------------------------------------------------------- *)
Lemma apply_txs_by_addr_sub reg l ts reg' a v :
  apply_txs reg l ts = Ok reg' -> In v (lookup_l a (by_addr reg')) ->
  In v (lookup_l a (by_addr reg)) \/ exists t, In t l /\ In v (mk_utxos (t_id t) ts 0 (outs t)).
Proof.
  revert reg; induction l as [|t r IH]; intros reg; cbn [apply_txs].
  - intros [= <-] Hin. now left.
  - destruct (apply_tx reg t ts) as [reg1|e] eqn:E; [|discriminate]. intros Hr Hin.
    destruct (IH _ Hr Hin) as [H|(t' & Ht' & H)].
    + destruct (apply_tx_by_addr_sub _ _ _ _ _ _ E H) as [H1|H1]; [now left|].
      right. exists t. split; [now left|exact H1].
    + right. exists t'. split; [now right|exact H].
Qed.

Lemma mk_utxos_ref id ts j l v : In v (mk_utxos id ts j l) -> u_ref v = id.
Proof. intros H. apply mk_utxos_In in H as (n & o & _ & ->). reflexivity. Qed.

(* the transaction ids of the chain are pairwise distinct and unknown to Utxos(address) *)
Definition chain_ids_unseen (u : ureg) (l : list block) : Prop :=
  NoDup (map t_id (chain_txs l)) /\
  forall t a v, In t (chain_txs l) -> In v (lookup_l a (by_addr u)) -> u_ref v <> t_id t.

(* Go: the output index is a uint16 *)
Definition chain_outs_bounded (l : list block) : Prop :=
  forall t, In t (chain_txs l) -> N.of_nat (length (outs t)) < 65536.

Lemma chain_ids_unseen_empty l : NoDup (map t_id (chain_txs l)) -> chain_ids_unseen ureg_empty l.
Proof. intros H. split; [exact H|]. intros t a v _ []. Qed.

Lemma chain_ids_unseen_step u a b r u1 a1 :
  chain_ids_unseen u (b :: r) -> apply_block u a b = Ok (u1, a1) ->
  ids_unseen u (txs b) /\ chain_ids_unseen u1 r.
Proof.
  intros [Hnd Hu] Hb. apply apply_block_txs in Hb.
  rewrite chain_txs_cons, map_app in Hnd. destruct (NoDup_app_inv _ _ Hnd) as (H1 & H2 & H3).
  split; [split; [exact H1|]|split; [exact H2|]].
  - intros t a0 v Ht Hv. apply (Hu t a0 v); [|exact Hv]. rewrite chain_txs_cons. apply in_app_iff. now left.
  - intros t a0 v Ht Hv.
    destruct (apply_txs_by_addr_sub _ _ _ _ _ _ Hb Hv) as [H|(t' & Ht' & H)].
    + apply (Hu t a0 v); [|exact H]. rewrite chain_txs_cons. apply in_app_iff. now right.
    + apply mk_utxos_ref in H. rewrite H. intros Hc.
      apply (H3 (t_id t')); [now apply in_map|rewrite Hc; now apply in_map].
Qed.

Lemma replay_from_sound l : forall u a u' a',
  ureg_sound u -> chain_outs_bounded l -> chain_ids_unseen u l ->
  replay_from u a l = Ok (u', a') -> ureg_sound u'.
Proof.
  induction l as [|b r IH]; intros u a u' a' Hs Hlen Hun Hr.
  - cbn in Hr. inversion Hr; subst. exact Hs.
  - apply replay_from_cons_inv in Hr as (u1 & a1 & Hb & Hr).
    destruct (chain_ids_unseen_step _ _ _ _ _ _ Hun Hb) as [Hb_un Hun1].
    apply (IH u1 a1 u' a'); [|intros t Ht; apply Hlen; rewrite chain_txs_cons; apply in_app_iff; now right
                            |exact Hun1|exact Hr].
    apply apply_block_inv in Hb as [Hb _].
    eapply update_utxos_sound; [exact Hs| |apply ids_unseen_compat; exact Hb_un|exact Hb].
    intros t Ht. apply Hlen. rewrite chain_txs_cons. apply in_app_iff. now left.
Qed.

Theorem replay_from_listed_findable l u a u' a' :
  ureg_sound u -> chain_outs_bounded l -> chain_ids_unseen u l ->
  replay_from u a l = Ok (u', a') -> ureg_sound u' /\ listed_findable u'.
Proof.
  intros Hs Hlen Hun Hr. assert (H : ureg_sound u') by (eapply replay_from_sound; eauto).
  split; [exact H|now apply sound_listed_findable].
Qed.

Theorem replay_listed_findable C u a :
  chain_outs_bounded C -> NoDup (map t_id (chain_txs C)) ->
  replay C = Ok (u, a) -> ureg_sound u /\ listed_findable u.
Proof.
  intros Hlen Hnd Hr. unfold replay in Hr.
  eapply replay_from_listed_findable; [exact ureg_sound_empty|exact Hlen| |exact Hr].
  now apply chain_ids_unseen_empty.
Qed.

(* the hypothesis on ids is needed: a transaction id that comes back with other outputs after its
   entry was deleted leaves a LIVE output listed and not findable (one block is enough) *)
Theorem replay_listed_findable_needs_distinct_ids_refuted :
  exists C u a,
    chain_outs_bounded C /\ replay C = Ok (u, a) /\ ~ listed_findable u.
Proof.
  exists [sp_blk 0 [w_X2; w_Y2; w_X3; w_Z3]]. eexists. eexists.
  split; [|split; [vm_compute; reflexivity|]].
  - intros t Ht. cbn in Ht. destruct Ht as [<-|[<-|[<-|[<-|[]]]]]; vm_compute; reflexivity.
  - intros Hl.
    specialize (Hl "A"%string (mkUtxo "X"%string 0 (mkOutput "A"%string false 5) 0)
                   (w_in 0 "X"%string)).
    assert (Hf : find_utxo
                   (mkUreg [("A"%string, [mkUtxo "X"%string 0 (mkOutput "A"%string false 5) 0]);
                            ("C"%string, [mkUtxo "Y"%string 0 (mkOutput "C"%string false 5) 0]);
                            ("D"%string, [mkUtxo "Z"%string 0 (mkOutput "D"%string false 5) 0])]
                           [("Y"%string, [Some (mkUtxo "Y"%string 0 (mkOutput "C"%string false 5) 0)]);
                            ("Z"%string, [Some (mkUtxo "Z"%string 0 (mkOutput "D"%string false 5) 0)])])
                   (w_in 0 "X"%string) = Err EUnknownId) by (vm_compute; reflexivity).
    rewrite Hl in Hf; [discriminate| | |].
    + vm_compute. auto.
    + reflexivity.
    + split; reflexivity.
Qed.

(* ------------------------------------------------------------------------- *)
(* 4. the lookup step of CalculateFee                                         *)
(* ------------------------------------------------------------------------- *)
(* every input of the transaction names a live output that Utxos lists for some address *)
Definition inputs_listed (reg : ureg) (t : tx) : Prop :=
  forall i, In i (ins t) -> exists a u, In u (utxos_of reg a) /\ live_u u = true /\ names i u.

Section Fee.
  Variable value_fn : N -> bool -> Z -> N.
  Variable addr_of : string -> string.

  Lemma inputs_value_found_err reg l ts : forall acc e,
    (forall i, In i l -> exists u, find_utxo reg i = Ok u) ->
    inputs_value value_fn addr_of reg l ts acc = Err e -> e = EOwner.
  Proof.
    induction l as [|i r IH]; intros acc e Hall; cbn [inputs_value]; [discriminate|].
    destruct (Hall i (or_introl eq_refl)) as [u Hu]. rewrite Hu.
    destruct (String.eqb (o_addr (u_out u)) (addr_of (i_key i))) eqn:Eo.
    - apply IH. intros i' Hi'. apply Hall. now right.
    - intros [= <-]. reflexivity.
  Qed.

  Theorem listed_inputs_pass_lookup fee reg t ts e :
    listed_findable reg -> inputs_listed reg t ->
    calc_fee value_fn addr_of fee reg t ts = Err e ->
    e = EOwner \/ e = EOverflow \/ e = ENegFee \/ e = ELowFee.
  Proof.
    intros Hlf Hin Hc.
    assert (Hall : forall i, In i (ins t) -> exists u, find_utxo reg i = Ok u).
    { intros i Hi. destruct (Hin i Hi) as (a & u & Hu & Hl & Hn). exists u. eapply Hlf; eauto. }
    unfold calc_fee in Hc.
    destruct (inputs_value value_fn addr_of reg (ins t) ts 0) as [iv|e'] eqn:Ei.
    - destruct (outputs_value (outs t) 0) as [ov|] eqn:Eo.
      + destruct (iv <? ov) eqn:E1; [inversion Hc; subst; tauto|].
        destruct (iv - ov <? fee) eqn:E2; [inversion Hc; subst; tauto|discriminate Hc].
      + inversion Hc; subst; tauto.
    - inversion Hc; subst e'. left. eapply inputs_value_found_err; eauto.
  Qed.

  Corollary listed_inputs_never_unknown fee reg t ts :
    listed_findable reg -> inputs_listed reg t ->
    calc_fee value_fn addr_of fee reg t ts <> Err EUnknownId /\
    calc_fee value_fn addr_of fee reg t ts <> Err ENoIndex.
  Proof.
    intros Hlf Hin. split; intros Hc;
      destruct (listed_inputs_pass_lookup _ _ _ _ _ Hlf Hin Hc) as [H|[H|[H|H]]]; discriminate H.
  Qed.
End Fee.

(* ------------------------------------------------------------------------- *)
(* 5. reachable nodes                                                         *)
(* ------------------------------------------------------------------------- *)
Lemma chain_txs_removelast_In (c : list block) t : In t (chain_txs (removelast c)) -> In t (chain_txs c).
Proof.
  destruct (snoc_cases c) as [->|(l0 & x & ->)]; [exact (fun H => H)|].
  rewrite removelast_last, chain_txs_app. intros H. apply in_app_iff. now left.
Qed.

Lemma chain_ids_removelast_NoDup (c : list block) :
  NoDup (map t_id (chain_txs c)) -> NoDup (map t_id (chain_txs (removelast c))).
Proof.
  destruct (snoc_cases c) as [->|(l0 & x & ->)]; [exact (fun H => H)|].
  rewrite removelast_last, chain_txs_app, map_app. intros H.
  now destruct (NoDup_app_inv _ _ H) as (H1 & _ & _).
Qed.

Section ReachListed.
  Variable value_fn : N -> bool -> Z -> N.
  Variable addr_of : string -> string.
  Variable sig_ok : input -> bool.
  Variable H : block -> hash.
  Variable gen_id : slice input -> slice output -> Z -> string.
  Variable S : settings.
  Variable validator : string.

  Notation reach := (reach value_fn addr_of sig_ok H gen_id S validator).

  (* the registry of a node is the replay of its chain minus the tip (C07), so the hypotheses are
     needed for the blocks below the tip only; they are stated for the whole chain *)
  Theorem reach_listed_findable n :
    reach n ->
    chain_outs_bounded (chain (n_c n)) -> NoDup (map t_id (chain_txs (chain (n_c n)))) ->
    ureg_sound (ur (n_c n)) /\ listed_findable (ur (n_c n)).
  Proof.
    intros Hr Hlen Hnd.
    destruct (reach_denotes _ _ _ _ _ _ _ _ Hr) as (a & Hrep & _).
    eapply replay_listed_findable; [| |exact Hrep].
    - intros t Ht. apply Hlen. now apply chain_txs_removelast_In.
    - now apply chain_ids_removelast_NoDup.
  Qed.

  Theorem reach_listed_inputs_pass_lookup n fee t ts e :
    reach n ->
    chain_outs_bounded (chain (n_c n)) -> NoDup (map t_id (chain_txs (chain (n_c n)))) ->
    inputs_listed (ur (n_c n)) t ->
    calc_fee value_fn addr_of fee (ur (n_c n)) t ts = Err e ->
    e <> EUnknownId /\ e <> ENoIndex /\
    (e = EOwner \/ e = EOverflow \/ e = ENegFee \/ e = ELowFee).
  Proof.
    intros Hr Hlen Hnd Hin Hc.
    destruct (reach_listed_findable n Hr Hlen Hnd) as [_ Hlf].
    pose proof (listed_inputs_pass_lookup _ _ _ _ _ _ _ Hlf Hin Hc) as He.
    split; [|split; [|exact He]]; intros ->; destruct He as [He|[He|[He|He]]]; discriminate He.
  Qed.
End ReachListed.

(* ------------------------------------------------------------------------- *)
(* 6. the seeded change F20: "value == 0 means empty"                         *)
(* ------------------------------------------------------------------------- *)
(* [slot_live] is  (0 <? value) || yielding ; the variant forgets the yielding case *)
Definition slot_live_val0 (o : option utxo) : bool :=
  match o with
  | None => false
  | Some v => 0 <? o_val (u_out v)
  end.

(* [consume] with [slot_live] replaced by [slot_live_val0], nothing else changed *)
Definition consume_val0 (reg : ureg) (i : input) : res err ureg :=
  match alookup (i_ref i) (by_id reg) with
  | None => Err EUnknownId
  | Some us =>
    match nth_error us (N.to_nat (i_idx i)) with
    | Some (Some u) =>
      let a := o_addr (u_out u) in
      let la := remove_first (fun v => String.eqb (u_ref v) (i_ref i) && N.eqb (u_idx v) (i_idx i))
                             (lookup_l a (by_addr reg)) in
      let us' := set_nth (N.to_nat (i_idx i)) None us in
      Ok (mkUreg
            (match la with [] => aremove a (by_addr reg) | _ => aset a la (by_addr reg) end)
            (if existsb slot_live_val0 us' then aset (i_ref i) us' (by_id reg)
             else aremove (i_ref i) (by_id reg)))
    | _ => Err ENoIndex
    end
  end.

(* the two functions differ only where an emptied transaction keeps a zero-valued yielding slot *)
Lemma slot_live_val0_le o : slot_live_val0 o = true -> slot_live o = true.
Proof. destruct o as [v|]; cbn; [|discriminate]. intros ->. reflexivity. Qed.

Definition f20_T : tx :=
  mkTx "T"%string None (Some [mkOutput "R"%string false 100; mkOutput "O"%string true 0]) 0.
Definition f20_in : input := mkInput 0 "T"%string "k"%string "s"%string.
Definition f20_reg0 : ureg := add_outputs ureg_empty f20_T 0.
Definition f20_u : utxo := mkUtxo "T"%string 1 (mkOutput "O"%string true 0) 0.

Theorem listed_findable_val0_refuted :
  exists reg,
    consume_val0 f20_reg0 f20_in = Ok reg /\
    In f20_u (utxos_of reg "O"%string) /\ live_u f20_u = true /\
    (forall i, names i f20_u -> find_utxo reg i = Err EUnknownId) /\
    ~ listed_findable reg.
Proof.
  eexists. split; [vm_compute; reflexivity|].
  split; [vm_compute; auto|]. split; [reflexivity|].
  assert (Hf : forall i, names i f20_u ->
                 find_utxo (mkUreg [("O"%string, [f20_u])] []) i = Err EUnknownId).
  { intros i [Hr _]. unfold find_utxo. cbn [by_id alookup]. reflexivity. }
  split; [exact Hf|].
  intros Hl.
  specialize (Hl "O"%string f20_u (mkInput 1 "T"%string "k"%string "s"%string)).
  rewrite Hf in Hl; [|split; reflexivity].
  assert (Hd : Err EUnknownId = Ok f20_u :> res err utxo).
  { apply Hl; [vm_compute; auto|reflexivity|split; reflexivity]. }
  discriminate Hd.
Qed.

(* the code as it is keeps the entry: the same two steps with [consume] *)
Theorem listed_findable_val0_contrast :
  exists reg,
    consume f20_reg0 f20_in = Ok reg /\
    In f20_u (utxos_of reg "O"%string) /\
    (forall i, names i f20_u -> find_utxo reg i = Ok f20_u) /\
    ureg_sound reg /\ listed_findable reg.
Proof.
  assert (Hs0 : ureg_sound f20_reg0).
  { apply add_outputs_sound; [exact ureg_sound_empty|reflexivity|vm_compute; reflexivity|].
    intros a u []. }
  assert (Hc : consume f20_reg0 f20_in =
               Ok (mkUreg [("O"%string, [f20_u])] [("T"%string, [None; Some f20_u])]))
    by (vm_compute; reflexivity).
  eexists. split; [exact Hc|].
  destruct (consume_listed_findable _ _ _ Hs0 Hc) as [Hs Hl].
  split; [vm_compute; auto|]. split; [|split; [exact Hs|exact Hl]].
  intros i Hn. apply (Hl "O"%string); [vm_compute; auto|reflexivity|exact Hn].
Qed.

(* ------------------------------------------------------------------------- *)
(* 7. the hypotheses of the positive theorems are satisfiable                 *)
(* ------------------------------------------------------------------------- *)
Module ListedExample.
  Import SyncExample ReachExample.

  (* two transactions, the second spends an output of the first; "C" lists a live output *)
  Lemma ex_update_hyps :
    ureg_sound ureg_empty /\
    (forall t, In t [w_X2; w_Y2] -> N.of_nat (length (outs t)) < 65536) /\
    txs_compat ureg_empty [w_X2; w_Y2] /\
    exists reg' u,
      update_utxos ureg_empty [w_X2; w_Y2] 0 = Ok reg' /\
      In u (utxos_of reg' "C"%string) /\ live_u u = true.
  Proof.
    split; [exact ureg_sound_empty|]. split.
    { intros t [<-|[<-|[]]]; vm_compute; reflexivity. }
    split; [exact (proj1 (proj2 ids_fresh_example))|].
    eexists. exists (mkUtxo "Y"%string 0 (mkOutput "C"%string false 5) 0).
    split; [vm_compute; reflexivity|]. split; [vm_compute; auto|reflexivity].
  Qed.

  (* the reachable two-block node of Reach_lemmas: its registry lists the first reward for "V" *)
  Definition ex_spend : tx :=
    mkTx "Q"%string
         (Some [mkInput 0 (String (ascii_of_N 10) EmptyString) "k"%string "s"%string])
         (Some [mkOutput "B"%string false 5]) 20.

  Lemma ex_reach_hyps :
    reach vf ao so Hinj gid Sx "V"%string (n2 Hinj) /\
    chain_outs_bounded (chain (n_c (n2 Hinj))) /\
    NoDup (map t_id (chain_txs (chain (n_c (n2 Hinj))))) /\
    inputs_listed (ur (n_c (n2 Hinj))) ex_spend /\ ins ex_spend <> [].
  Proof.
    split; [exact n2_reach|]. split.
    { intros t Ht. vm_compute in Ht. destruct Ht as [<-|[<-|[]]]; vm_compute; reflexivity. }
    split.
    { vm_compute. apply NoDup_two. discriminate. }
    split; [|discriminate].
    intros i Hi. cbn in Hi. destruct Hi as [<-|[]].
    exists "V"%string.
    exists (mkUtxo (String (ascii_of_N 10) EmptyString) 0 (mkOutput "V"%string true 100) 10).
    split; [vm_compute; auto|]. split; [reflexivity|split; reflexivity].
  Qed.
End ListedExample.
