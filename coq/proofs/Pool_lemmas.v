(* Pool_lemmas.v — lemmas about model/Pool.v (transactions_pool.go): admission into the pool
   (addTransaction) and block production (Validate). Property C11. *)
From RV Require Import model.Base model.Ledger model.Registry model.Chain model.Pool.
From Coq Require Import Lia ZArith NArith Permutation.
Local Open Scope Z_scope.

(* ---------------------------------------------------------------------------------- *)
(* generic helpers                                                                     *)
(* ---------------------------------------------------------------------------------- *)

Definition sumN (l : list N) : N := fold_right N.add 0%N l.

Lemma mem_str_In a l : mem_str a l = true <-> In a l.
Proof.
  induction l as [|x r IH]; simpl.
  - split; [discriminate|tauto].
  - destruct (String.eqb_spec a x) as [->|Hne].
    + split; auto.
    + rewrite IH. split; [auto|]. intros [E|E]; [congruence|exact E].
Qed.

Lemma mem_str_not_In a l : mem_str a l = false <-> ~ In a l.
Proof.
  rewrite <- mem_str_In. destruct (mem_str a l); split; congruence.
Qed.

Lemma two64_pos : (0 < two64)%N.
Proof. reflexivity. Qed.

Lemma two64_neq0 : two64 <> 0%N.
Proof. discriminate. Qed.

Lemma add64_le a b : (add64 a b <= a + b)%N.
Proof. unfold add64. apply N.mod_le. exact two64_neq0. Qed.

Lemma add64_lt a b : (add64 a b < two64)%N.
Proof. unfold add64. apply N.mod_lt. exact two64_neq0. Qed.

(* the uint64 running sum [reward += fee] never exceeds the mathematical sum ... *)
Lemma fold_add64_le fees : forall r, (fold_left add64 fees r <= r + sumN fees)%N.
Proof.
  induction fees as [|f fs IH]; intros r.
  - change (sumN []) with 0%N. change (fold_left add64 [] r) with r. lia.
  - change (fold_left add64 (f :: fs) r) with (fold_left add64 fs (add64 r f)).
    change (sumN (f :: fs)) with (f + sumN fs)%N.
    pose proof (IH (add64 r f)) as H1. pose proof (add64_le r f) as H2. lia.
Qed.

(* ... it is the mathematical sum modulo 2^64 ... *)
Lemma fold_add64_mod fees : forall r, (r < two64)%N ->
  fold_left add64 fees r = ((r + sumN fees) mod two64)%N.
Proof.
  induction fees as [|f fs IH]; intros r Hr.
  - change (sumN []) with 0%N. change (fold_left add64 [] r) with r.
    rewrite N.add_0_r. symmetry. apply N.mod_small. exact Hr.
  - change (fold_left add64 (f :: fs) r) with (fold_left add64 fs (add64 r f)).
    change (sumN (f :: fs)) with (f + sumN fs)%N.
    rewrite (IH (add64 r f) (add64_lt r f)). unfold add64.
    rewrite N.add_mod_idemp_l by exact two64_neq0.
    rewrite N.add_assoc. reflexivity.
Qed.

(* ... and equals it when the mathematical sum fits in a uint64 *)
Lemma fold_add64_exact fees r : (r + sumN fees < two64)%N ->
  fold_left add64 fees r = (r + sumN fees)%N.
Proof.
  intros Hs. rewrite fold_add64_mod by lia. apply N.mod_small. exact Hs.
Qed.

(* ---- permute: what rand.Shuffle does, as a list of indices ---- *)

Lemma permute_cons {A} i p (l : list A) :
  permute (i :: p) l = (match nth_error l i with Some x => [x] | None => [] end) ++ permute p l.
Proof. reflexivity. Qed.

Lemma permute_In {A} perm (l : list A) x :
  In x (permute perm l) <-> exists i, In i perm /\ nth_error l i = Some x.
Proof.
  unfold permute. rewrite in_flat_map. split; intros [i [Hi Hx]]; exists i; split; auto.
  - destruct (nth_error l i) as [y|]; simpl in Hx.
    + destruct Hx as [->|[]]. reflexivity.
    + contradiction.
  - rewrite Hx. left. reflexivity.
Qed.

Lemma permute_incl {A} perm (l : list A) : incl (permute perm l) l.
Proof.
  intros x Hx. apply permute_In in Hx as [i [_ Hi]]. eapply nth_error_In. exact Hi.
Qed.

Lemma permute_map {A B} (f : A -> B) perm (l : list A) :
  map f (permute perm l) = permute perm (map f l).
Proof.
  induction perm as [|i p IH]; [reflexivity|].
  rewrite !permute_cons, map_app, IH, nth_error_map.
  destruct (nth_error l i); reflexivity.
Qed.

Lemma permute_nodup {A} perm (l : list A) : NoDup l -> NoDup perm -> NoDup (permute perm l).
Proof.
  intros Hl. induction perm as [|i p IH]; intros Hp.
  - constructor.
  - rewrite permute_cons. inversion Hp as [|i' p' Hni Hp']; subst.
    destruct (nth_error l i) as [x|] eqn:E; simpl; [|auto].
    constructor; [|auto]. intros Hin.
    apply permute_In in Hin as [j [Hj Hx]].
    assert (Hij : i = j).
    { apply (proj1 (NoDup_nth_error l) Hl).
      - apply nth_error_Some. congruence.
      - congruence. }
    subst. contradiction.
Qed.

Lemma permute_seq_aux {A} (l : list A) : forall pre,
  permute (seq (length pre) (length l)) (pre ++ l) = l.
Proof.
  induction l as [|x r IH]; intros pre; [reflexivity|].
  change (seq (length pre) (length (x :: r)))
    with (length pre :: seq (Datatypes.S (length pre)) (length r)).
  rewrite permute_cons.
  rewrite nth_error_app2 by lia. rewrite Nat.sub_diag. simpl.
  f_equal.
  replace (pre ++ x :: r) with ((pre ++ [x]) ++ r) by (rewrite <- app_assoc; reflexivity).
  replace (Datatypes.S (length pre)) with (length (pre ++ [x])) by (rewrite app_length; simpl; lia).
  apply IH.
Qed.

Lemma permute_id {A} (l : list A) : permute (seq 0 (length l)) l = l.
Proof. exact (permute_seq_aux l []). Qed.

(* a shuffle (a permutation of the indices) tries every pooled transaction exactly once *)
Lemma permute_perm {A} perm (l : list A) :
  Permutation perm (seq 0 (length l)) -> Permutation (permute perm l) l.
Proof.
  intros Hp. rewrite <- (permute_id l) at 2. unfold permute.
  apply Permutation_flat_map. exact Hp.
Qed.

Section PoolLemmas.
  Variable value_fn : N -> bool -> Z -> N.
  Variable addr_of : string -> string.
  Variable sig_ok : input -> bool.
  Variable H : block -> hash.
  Variable gen_id : slice input -> slice output -> Z -> string.
  Variable S : settings.
  Variable validator : string.

  Notation calc_fee := (Ledger.calc_fee value_fn addr_of).
  Notation verify_sigs := (Chain.verify_sigs sig_ok).
  Notation pool_add := (Pool.pool_add value_fn addr_of sig_ok S).
  Notation produce_loop := (Pool.produce_loop value_fn addr_of sig_ok S).
  Notation validate := (Pool.validate value_fn addr_of sig_ok H gen_id S validator).
  Notation reward_tx := (Pool.reward_tx gen_id validator).
  Notation make_block := (Chain.make_block H).
  Notation add_block := (Chain.add_block H).

  (* -------------------------------------------------------------------------------- *)
  (* A. admission                                                                      *)
  (* -------------------------------------------------------------------------------- *)

  Lemma pool_add_sound n t n' :
    pool_add n t = Ok n' ->
    let last := last_block_ts (chain (n_c n)) in
    let next := last + s_interval S in
    last <> 0 /\ last <= t_ts t <= next /\ ~ In (t_id t) (pool_ids n) /\ verify_sigs t = true /\
    exists u1 u2 f u3,
      update_utxos (ur (n_c n)) (last_block_txs (chain (n_c n))) last = Ok u1 /\
      update_utxos u1 (elems (n_pool n)) next = Ok u2 /\
      calc_fee (s_fee S) u2 t next = Ok f /\
      update_utxos u2 [t] next = Ok u3 /\
      n' = mkNode (n_c n) (sl_app (n_pool n) t).
  Proof.
    intros Hadd last next. unfold Pool.pool_add in Hadd. cbv zeta in Hadd.
    fold last in Hadd. fold next in Hadd.
    destruct (Z.eqb_spec last 0) as [E0|E0]; [discriminate|].
    destruct (Z.ltb_spec next (t_ts t)) as [E1|E1]; [discriminate|].
    destruct (Z.ltb_spec (t_ts t) last) as [E2|E2]; [discriminate|].
    destruct (mem_str (t_id t) (pool_ids n)) eqn:E3; [discriminate|].
    destruct (verify_sigs t) eqn:E4; [|discriminate]. cbn [negb] in Hadd.
    destruct (update_utxos (ur (n_c n)) (last_block_txs (chain (n_c n))) last) as [u1|e1] eqn:E5;
      [|discriminate].
    destruct (update_utxos u1 (elems (n_pool n)) next) as [u2|e2] eqn:E6; [|discriminate].
    destruct (calc_fee (s_fee S) u2 t next) as [f|e3] eqn:E7; [|discriminate].
    destruct (update_utxos u2 [t] next) as [u3|e4] eqn:E8; [|discriminate].
    inversion Hadd; subst n'.
    split; [exact E0|]. split; [lia|]. split; [apply mem_str_not_In; exact E3|].
    split; [reflexivity|]. exists u1, u2, f, u3. repeat split; assumption.
  Qed.

  Lemma pool_add_complete n t :
    let last := last_block_ts (chain (n_c n)) in
    let next := last + s_interval S in
    last <> 0 -> last <= t_ts t <= next -> ~ In (t_id t) (pool_ids n) -> verify_sigs t = true ->
    (exists u1 u2 f u3,
      update_utxos (ur (n_c n)) (last_block_txs (chain (n_c n))) last = Ok u1 /\
      update_utxos u1 (elems (n_pool n)) next = Ok u2 /\
      calc_fee (s_fee S) u2 t next = Ok f /\
      update_utxos u2 [t] next = Ok u3) ->
    pool_add n t = Ok (mkNode (n_c n) (sl_app (n_pool n) t)).
  Proof.
    intros last next E0 E1 E3 E4 [u1 [u2 [f [u3 [E5 [E6 [E7 E8]]]]]]].
    unfold Pool.pool_add. cbv zeta. fold last. fold next.
    destruct (Z.eqb_spec last 0) as [F0|F0]; [contradiction|].
    destruct (Z.ltb_spec next (t_ts t)) as [F1|F1]; [lia|].
    destruct (Z.ltb_spec (t_ts t) last) as [F2|F2]; [lia|].
    apply mem_str_not_In in E3. rewrite E3, E4. cbn [negb].
    rewrite E5, E6, E7, E8. reflexivity.
  Qed.

  Lemma pool_add_node n t n' :
    pool_add n t = Ok n' -> n' = mkNode (n_c n) (sl_app (n_pool n) t).
  Proof.
    intros Hadd. apply pool_add_sound in Hadd. cbv zeta in Hadd.
    destruct Hadd as [_ [_ [_ [_ [u1 [u2 [f [u3 [_ [_ [_ [_ E]]]]]]]]]]]]. exact E.
  Qed.

  Lemma pool_add_ids n t n' :
    pool_add n t = Ok n' -> pool_ids n' = pool_ids n ++ [t_id t].
  Proof.
    intros Hadd. rewrite (pool_add_node _ _ _ Hadd). unfold pool_ids, sl_app. cbn [n_pool elems].
    rewrite map_app. reflexivity.
  Qed.

  Lemma pool_ids_nodup n t n' :
    NoDup (pool_ids n) -> pool_add n t = Ok n' -> NoDup (pool_ids n').
  Proof.
    intros Hnd Hadd. rewrite (pool_add_ids _ _ _ Hadd).
    apply pool_add_sound in Hadd. cbv zeta in Hadd. destruct Hadd as [_ [_ [Hni _]]].
    apply NoDup_rev in Hnd. rewrite <- (rev_involutive (pool_ids n ++ [t_id t])).
    apply NoDup_rev. rewrite rev_app_distr. simpl. constructor; [|exact Hnd].
    rewrite <- in_rev. exact Hni.
  Qed.

  (* -------------------------------------------------------------------------------- *)
  (* B. production: the specification [greedy]                                         *)
  (* -------------------------------------------------------------------------------- *)

  (* [keeps last next ts u t = Some (f, u')]: [t], judged against the running registry [u]
     of the transactions kept before it, goes into the block; [f] is its fee, [u'] the
     running registry after it *)
  Definition keeps (last next ts : Z) (u : ureg) (t : tx) : option (N * ureg) :=
    if (t_ts t <=? ts) && (last <=? t_ts t) && verify_sigs t then
      match calc_fee (s_fee S) u t ts with
      | Ok f => match update_utxos u [t] next with Ok u' => Some (f, u') | Err _ => None end
      | Err _ => None
      end
    else None.

  Lemma keeps_iff last next ts u t f u' :
    keeps last next ts u t = Some (f, u') <->
    t_ts t <= ts /\ last <= t_ts t /\ verify_sigs t = true /\
    calc_fee (s_fee S) u t ts = Ok f /\ update_utxos u [t] next = Ok u'.
  Proof.
    unfold keeps.
    destruct (Z.leb_spec (t_ts t) ts) as [A|A]; cbn [andb].
    2:{ split; [discriminate|]. intros [A' _]. lia. }
    destruct (Z.leb_spec last (t_ts t)) as [B|B]; cbn [andb].
    2:{ split; [discriminate|]. intros [_ [B' _]]. lia. }
    destruct (verify_sigs t).
    2:{ split; [discriminate|]. intros [_ [_ [C _]]]. discriminate. }
    destruct (calc_fee (s_fee S) u t ts) as [f0|e0].
    2:{ split; [discriminate|]. intros [_ [_ [_ [D _]]]]. discriminate. }
    destruct (update_utxos u [t] next) as [u0|e1].
    2:{ split; [discriminate|]. intros [_ [_ [_ [_ D]]]]. discriminate. }
    split.
    - intros E. inversion E; subst. repeat split; auto.
    - intros [_ [_ [_ [D1 D2]]]]. inversion D1; inversion D2; subst. reflexivity.
  Qed.

  (* the first check that fails, for a transaction that is not kept *)
  Definition drop_reason (last next ts : Z) (u : ureg) (t : tx) : drop :=
    if ts <? t_ts t then DFuture
    else if t_ts t <? last then DOld
    else if negb (verify_sigs t) then DSig
    else match calc_fee (s_fee S) u t ts with
         | Err e => DFee e
         | Ok _ => match update_utxos u [t] next with Err e => DUpdate e | Ok _ => DSig end
         end.

  (* the transactions kept, in the order tried *)
  Fixpoint greedy (last next ts : Z) (l : list tx) (u : ureg) : list tx :=
    match l with
    | [] => []
    | t :: r => match keeps last next ts u t with
                | Some (_, u') => t :: greedy last next ts r u'
                | None => greedy last next ts r u
                end
    end.
  (* their fees *)
  Fixpoint greedy_fees (last next ts : Z) (l : list tx) (u : ureg) : list N :=
    match l with
    | [] => []
    | t :: r => match keeps last next ts u t with
                | Some (f, u') => f :: greedy_fees last next ts r u'
                | None => greedy_fees last next ts r u
                end
    end.
  (* the others *)
  Fixpoint greedy_rest (last next ts : Z) (l : list tx) (u : ureg) : list tx :=
    match l with
    | [] => []
    | t :: r => match keeps last next ts u t with
                | Some (_, u') => greedy_rest last next ts r u'
                | None => t :: greedy_rest last next ts r u
                end
    end.
  (* the others with the reason each was dropped for *)
  Fixpoint greedy_log (last next ts : Z) (l : list tx) (u : ureg) : list (string * drop) :=
    match l with
    | [] => []
    | t :: r => match keeps last next ts u t with
                | Some (_, u') => greedy_log last next ts r u'
                | None => (t_id t, drop_reason last next ts u t) :: greedy_log last next ts r u
                end
    end.
  (* the running registry at the end *)
  Fixpoint greedy_final (last next ts : Z) (l : list tx) (u : ureg) : ureg :=
    match l with
    | [] => u
    | t :: r => match keeps last next ts u t with
                | Some (_, u') => greedy_final last next ts r u'
                | None => greedy_final last next ts r u
                end
    end.

  Lemma loop_keep last next ts t r u kept dropped reward f u' :
    keeps last next ts u t = Some (f, u') ->
    produce_loop last next ts (t :: r) u kept dropped reward
    = produce_loop last next ts r u' (t :: kept) dropped (add64 reward f).
  Proof.
    intros Hk. apply keeps_iff in Hk as [A [B [C [D E]]]].
    cbn [Pool.produce_loop].
    destruct (Z.ltb_spec ts (t_ts t)) as [A'|_]; [lia|].
    destruct (Z.ltb_spec (t_ts t) last) as [B'|_]; [lia|].
    rewrite C. cbn [negb]. rewrite D, E. reflexivity.
  Qed.

  Lemma loop_drop last next ts t r u kept dropped reward :
    keeps last next ts u t = None ->
    produce_loop last next ts (t :: r) u kept dropped reward
    = produce_loop last next ts r u kept ((t_id t, drop_reason last next ts u t) :: dropped) reward.
  Proof.
    intros Hk. unfold keeps in Hk. unfold drop_reason. cbn [Pool.produce_loop].
    destruct (Z.ltb_spec ts (t_ts t)) as [A|A]; [reflexivity|].
    destruct (Z.ltb_spec (t_ts t) last) as [B|B]; [reflexivity|].
    destruct (Z.leb_spec (t_ts t) ts) as [A'|A']; [|lia].
    destruct (Z.leb_spec last (t_ts t)) as [B'|B']; [|lia].
    cbn [andb] in Hk.
    destruct (verify_sigs t); cbn [negb]; [|reflexivity].
    destruct (calc_fee (s_fee S) u t ts) as [f|e]; [|reflexivity].
    destruct (update_utxos u [t] next) as [u'|e]; [discriminate|reflexivity].
  Qed.

  Lemma produce_loop_spec last next ts l : forall u kept dropped reward,
    produce_loop last next ts l u kept dropped reward
    = (greedy_final last next ts l u,
       rev kept ++ greedy last next ts l u,
       rev dropped ++ greedy_log last next ts l u,
       fold_left add64 (greedy_fees last next ts l u) reward).
  Proof.
    induction l as [|t r IH]; intros u kept dropped reward.
    - cbn [Pool.produce_loop greedy greedy_log greedy_fees greedy_final fold_left].
      rewrite !app_nil_r. reflexivity.
    - cbn [greedy greedy_log greedy_fees greedy_final].
      destruct (keeps last next ts u t) as [[f u']|] eqn:Hk.
      + rewrite (loop_keep _ _ _ _ _ _ _ _ _ _ _ Hk), IH.
        cbn [rev fold_left]. rewrite <- app_assoc. reflexivity.
      + rewrite (loop_drop _ _ _ _ _ _ _ _ _ Hk), IH.
        cbn [rev]. rewrite <- app_assoc. reflexivity.
  Qed.

  Lemma greedy_log_ids last next ts l : forall u,
    map fst (greedy_log last next ts l u) = map t_id (greedy_rest last next ts l u).
  Proof.
    induction l as [|t r IH]; intros u; [reflexivity|].
    cbn [greedy_log greedy_rest].
    destruct (keeps last next ts u t) as [[f u']|]; [apply IH|].
    cbn [map fst]. rewrite IH. reflexivity.
  Qed.

  (* item 4 *)
  Lemma produce_loop_greedy last next ts l u r0 u' kept dropped reward :
    produce_loop last next ts l u [] [] r0 = (u', kept, dropped, reward) ->
    kept = greedy last next ts l u /\
    dropped = greedy_log last next ts l u /\
    map fst dropped = map t_id (greedy_rest last next ts l u) /\
    reward = fold_left add64 (greedy_fees last next ts l u) r0 /\
    u' = greedy_final last next ts l u.
  Proof.
    rewrite produce_loop_spec. cbn [rev app]. intros E. inversion E; subst.
    repeat split. apply greedy_log_ids.
  Qed.

  Lemma produce_loop_reward_le last next ts l u r0 u' kept dropped reward :
    produce_loop last next ts l u [] [] r0 = (u', kept, dropped, reward) ->
    (reward <= r0 + sumN (greedy_fees last next ts l u))%N /\
    ((r0 < two64)%N -> reward = ((r0 + sumN (greedy_fees last next ts l u)) mod two64)%N) /\
    ((r0 + sumN (greedy_fees last next ts l u) < two64)%N ->
       reward = (r0 + sumN (greedy_fees last next ts l u))%N).
  Proof.
    intros E. apply produce_loop_greedy in E as [_ [_ [_ [-> _]]]].
    split; [apply fold_add64_le|]. split; [apply fold_add64_mod|apply fold_add64_exact].
  Qed.

  (* ---- structure of [greedy] ---- *)

  Lemma greedy_incl last next ts l : forall u, incl (greedy last next ts l u) l.
  Proof.
    induction l as [|t r IH]; intros u x Hx; [exact Hx|].
    cbn [greedy] in Hx. destruct (keeps last next ts u t) as [[f u']|].
    - destruct Hx as [->|Hx]; [left; reflexivity|right; exact (IH _ _ Hx)].
    - right. exact (IH _ _ Hx).
  Qed.

  (* every transaction tried is either in the block or in the dropped log, once *)
  Lemma greedy_partition last next ts l : forall u,
    Permutation (greedy last next ts l u ++ greedy_rest last next ts l u) l.
  Proof.
    induction l as [|t r IH]; intros u; [constructor|].
    cbn [greedy greedy_rest]. destruct (keeps last next ts u t) as [[f u']|].
    - cbn [app]. constructor. apply IH.
    - apply Permutation_sym, Permutation_cons_app, Permutation_sym, IH.
  Qed.

  Lemma greedy_fees_length last next ts l : forall u,
    length (greedy_fees last next ts l u) = length (greedy last next ts l u).
  Proof.
    induction l as [|t r IH]; intros u; [reflexivity|].
    cbn [greedy greedy_fees]. destruct (keeps last next ts u t) as [[f u']|]; cbn [length]; rewrite IH; reflexivity.
  Qed.

  Lemma greedy_nodup_ids last next ts l : forall u,
    NoDup (map t_id l) -> NoDup (map t_id (greedy last next ts l u)).
  Proof.
    induction l as [|t r IH]; intros u Hnd; [constructor|].
    cbn [map] in Hnd. inversion Hnd as [|i m Hni Hnd']; subst.
    cbn [greedy]. destruct (keeps last next ts u t) as [[f u']|]; [|apply IH; exact Hnd'].
    cbn [map]. constructor; [|apply IH; exact Hnd'].
    intros Hin. apply Hni. apply in_map_iff in Hin as [x [Hx Hin]].
    apply in_map_iff. exists x. split; [exact Hx|]. exact (greedy_incl _ _ _ _ _ _ Hin).
  Qed.

  (* a kept transaction satisfied every check against the registry of those kept before it *)
  Lemma greedy_kept_valid last next ts l : forall u t,
    In t (greedy last next ts l u) ->
    t_ts t <= ts /\ last <= t_ts t /\ verify_sigs t = true /\
    exists u1 f u2, calc_fee (s_fee S) u1 t ts = Ok f /\ update_utxos u1 [t] next = Ok u2.
  Proof.
    induction l as [|x r IH]; intros u t Hin; [destruct Hin|].
    cbn [greedy] in Hin. destruct (keeps last next ts u x) as [[f u']|] eqn:Hk.
    - destruct Hin as [->|Hin]; [|exact (IH _ _ Hin)].
      apply keeps_iff in Hk as [A [B [C [D E]]]].
      split; [exact A|]. split; [exact B|]. split; [exact C|]. exists u, f, u'. split; assumption.
    - exact (IH _ _ Hin).
  Qed.

  (* with a positive minimal fee, a transaction whose fee is accepted spends something *)
  Lemma calc_fee_has_input u t ts f :
    (0 < s_fee S)%N -> calc_fee (s_fee S) u t ts = Ok f -> is_reward t = false.
  Proof.
    intros Hfee. unfold Ledger.calc_fee, is_reward.
    destruct (ins t) as [|i r]; [|reflexivity].
    cbn [inputs_value].
    destruct (outputs_value (outs t) 0) as [ov|]; [|discriminate].
    destruct (N.ltb_spec 0 ov) as [A|A]; [discriminate|].
    destruct (N.ltb_spec (0 - ov) (s_fee S)) as [B|B]; [discriminate|].
    lia.
  Qed.

  Lemma greedy_no_reward last next ts l u t :
    (0 < s_fee S)%N -> In t (greedy last next ts l u) -> is_reward t = false.
  Proof.
    intros Hfee Hin. apply greedy_kept_valid in Hin as [_ [_ [_ [u1 [f [u2 [Hf _]]]]]]].
    exact (calc_fee_has_input _ _ _ _ Hfee Hf).
  Qed.

  (* -------------------------------------------------------------------------------- *)
  (* B. production: Validate                                                           *)
  (* -------------------------------------------------------------------------------- *)

  Lemma add_block_chain c ts l addrs c' :
    add_block c ts l addrs = Ok c' -> chain c' = chain c ++ [make_block c ts l addrs].
  Proof.
    unfold Chain.add_block, add_block_raw.
    destruct (last_block (chain c)) as [lb|].
    - destruct (ts <=? b_ts lb); [discriminate|].
      destruct (apply_block (ur c) (ar c) lb) as [[u' a']|e]; intros E; inversion E; reflexivity.
    - intros E; inversion E; reflexivity.
  Qed.

  (* AddBlock refuses a block that is not dated after the tip (blockchain.go AddBlock) *)
  Lemma add_block_after_tip c ts l addrs c' :
    add_block c ts l addrs = Ok c' -> chain c <> [] -> last_block_ts (chain c) < ts.
  Proof.
    unfold Chain.add_block, last_block_ts, last_block.
    destruct (rev (chain c)) as [|lb r] eqn:Er.
    - intros _ Hne. exfalso. apply Hne. rewrite <- (rev_involutive (chain c)), Er. reflexivity.
    - destruct (Z.leb_spec ts (b_ts lb)) as [A|A]; [discriminate|]. intros _ _. exact A.
  Qed.

  (* what is left of AddBlock once the date check has passed *)
  Lemma add_block_raw_eq c ts l addrs :
    chain c = [] \/ last_block_ts (chain c) < ts ->
    add_block c ts l addrs = add_block_raw c (make_block c ts l addrs).
  Proof.
    unfold Chain.add_block, last_block_ts, last_block.
    destruct (rev (chain c)) as [|lb r] eqn:Er; [reflexivity|].
    intros [E|A].
    - rewrite E in Er. discriminate.
    - destruct (Z.leb_spec ts (b_ts lb)) as [B|B]; [lia|reflexivity].
  Qed.

  (* a successful AddBlock is a successful addBlock of the block it has made *)
  Lemma add_block_ok_raw c ts l addrs c' :
    add_block c ts l addrs = Ok c' -> add_block_raw c (make_block c ts l addrs) = Ok c'.
  Proof.
    unfold Chain.add_block. destruct (last_block (chain c)) as [lb|]; [|exact (fun E => E)].
    destruct (ts <=? b_ts lb); [discriminate|exact (fun E => E)].
  Qed.

  Lemma add_block_time c ts l addrs :
    chain c <> [] -> ts <= last_block_ts (chain c) -> add_block c ts l addrs = Err ETime.
  Proof.
    unfold Chain.add_block, last_block_ts, last_block.
    destruct (rev (chain c)) as [|lb r] eqn:Er.
    - intros Hne. exfalso. apply Hne. rewrite <- (rev_involutive (chain c)), Er. reflexivity.
    - intros _ A. destruct (Z.leb_spec ts (b_ts lb)) as [B|B]; [reflexivity|lia].
  Qed.

  Lemma reward_tx_is_reward y ts v : is_reward (reward_tx y ts v) = true.
  Proof. reflexivity. Qed.
  Lemma reward_tx_addr y ts v : reward_addr (reward_tx y ts v) = validator.
  Proof. reflexivity. Qed.
  Lemma reward_tx_value y ts v : reward_value (reward_tx y ts v) = v.
  Proof. reflexivity. Qed.

  Lemma filter_none {A} (p : A -> bool) l : (forall x, In x l -> p x = false) -> filter p l = [].
  Proof.
    induction l as [|x r IH]; intros Hp; [reflexivity|].
    cbn [filter]. rewrite (Hp x (or_introl eq_refl)). apply IH. intros y Hy. apply Hp. right. exact Hy.
  Qed.

  (* item 5 *)
  Lemma validate_produced n ts perm n' d :
    validate n ts perm = (n', Produced d) ->
    let c := n_c n in
    let last := last_block_ts (chain c) in
    let next := last + s_interval S in
    let genesis := (last =? 0) in
    let tried := permute perm (elems (n_pool n)) in
    exists kept reward u0,
      update_utxos (ur c) (last_block_txs (chain c)) last = Ok u0 /\
      kept = greedy last next ts tried u0 /\
      reward = fold_left add64 (greedy_fees last next ts tried u0)
                         (if genesis then s_genesis S else 0%N) /\
      d = greedy_log last next ts tried u0 /\
      let rt := reward_tx genesis ts reward in
      let b := make_block c ts (Some (kept ++ [rt]))
                          ((if genesis then [validator] else []) ++ yielding_addrs kept) in
      chain (n_c n') = chain c ++ [b] /\
      n_pool n' = None /\
      incl kept (elems (n_pool n)) /\
      txs b = kept ++ [rt] /\
      is_reward rt = true /\ reward_addr rt = validator /\ reward_value rt = reward /\
      ((forall t, In t kept -> is_reward t = false) ->
         length (filter is_reward (txs b)) = 1%nat).
  Proof.
    intros Hv c last next genesis tried.
    unfold Pool.validate in Hv. cbv zeta in Hv.
    fold c in Hv. fold last in Hv. fold next in Hv. fold genesis in Hv. fold tried in Hv.
    destruct (negb genesis && (last =? ts)); [discriminate|].
    destruct (negb genesis && (next <? ts)); [discriminate|].
    destruct (update_utxos (ur c) (last_block_txs (chain c)) last) as [u0|e0] eqn:E0; [|discriminate].
    rewrite produce_loop_spec in Hv. cbv beta iota in Hv. cbn [rev app] in Hv.
    set (kept := greedy last next ts tried u0) in *.
    set (reward := fold_left add64 (greedy_fees last next ts tried u0)
                             (if genesis then s_genesis S else 0%N)) in *.
    destruct (add_block c ts (Some (kept ++ [reward_tx genesis ts reward]))
                ((if genesis then [validator] else []) ++ yielding_addrs kept)) as [c'|e1] eqn:E1;
      [|discriminate].
    inversion Hv; subst n' d.
    exists kept, reward, u0.
    split; [reflexivity|]. split; [reflexivity|]. split; [reflexivity|]. split; [reflexivity|].
    cbv zeta. cbn [n_c n_pool].
    split; [exact (add_block_chain _ _ _ _ _ E1)|]. split; [reflexivity|].
    split.
    { intros x Hx. apply (permute_incl perm). exact (greedy_incl _ _ _ _ _ _ Hx). }
    split; [reflexivity|]. split; [reflexivity|]. split; [reflexivity|]. split; [reflexivity|].
    intros Hall. unfold Chain.make_block, txs. cbn [b_txs elems].
    rewrite filter_app, (filter_none _ _ Hall). reflexivity.
  Qed.

  (* with a positive minimal fee the block has exactly one reward *)
  Lemma validate_one_reward n ts perm n' d :
    (0 < s_fee S)%N ->
    validate n ts perm = (n', Produced d) ->
    exists b, chain (n_c n') = chain (n_c n) ++ [b] /\
              length (filter is_reward (txs b)) = 1%nat.
  Proof.
    intros Hfee Hv. apply validate_produced in Hv. cbv zeta in Hv.
    destruct Hv as [kept [reward [u0 [_ [Hk [_ [_ [Hc [_ [_ [_ [_ [_ [_ Hone]]]]]]]]]]]]]].
    eexists. split; [exact Hc|]. apply Hone. intros t Ht. rewrite Hk in Ht.
    exact (greedy_no_reward _ _ _ _ _ _ Hfee Ht).
  Qed.

  (* a produced block is dated after the tip: AddBlock would have refused it otherwise *)
  Lemma validate_produced_after_tip n ts perm n' d :
    validate n ts perm = (n', Produced d) ->
    chain (n_c n) <> [] -> last_block_ts (chain (n_c n)) < ts.
  Proof.
    intros Hv Hne. unfold Pool.validate in Hv. cbv zeta in Hv.
    destruct (negb (last_block_ts (chain (n_c n)) =? 0) && (last_block_ts (chain (n_c n)) =? ts));
      [discriminate|].
    destruct (negb (last_block_ts (chain (n_c n)) =? 0)
              && (last_block_ts (chain (n_c n)) + s_interval S <? ts)); [discriminate|].
    destruct (update_utxos (ur (n_c n)) (last_block_txs (chain (n_c n)))
                (last_block_ts (chain (n_c n)))) as [u0|e0]; [|discriminate].
    rewrite produce_loop_spec in Hv. cbv beta iota in Hv.
    match type of Hv with
    | match ?X with Ok _ => _ | Err _ => _ end = _ => destruct X as [c'|e1] eqn:E1
    end; [|discriminate].
    exact (add_block_after_tip _ _ _ _ _ E1 Hne).
  Qed.

  (* a refused Validate leaves the whole node - chain, registries and pool - as it was: the
     shuffle, the removals and the reward are made on a copy of the pool *)
  Lemma validate_refused_id n ts perm n' e :
    validate n ts perm = (n', Refused e) -> n' = n.
  Proof.
    intros Hv. unfold Pool.validate in Hv. cbv zeta in Hv.
    destruct (negb (last_block_ts (chain (n_c n)) =? 0) && (last_block_ts (chain (n_c n)) =? ts));
      [inversion Hv; reflexivity|].
    destruct (negb (last_block_ts (chain (n_c n)) =? 0)
              && (last_block_ts (chain (n_c n)) + s_interval S <? ts));
      [inversion Hv; reflexivity|].
    destruct (update_utxos (ur (n_c n)) (last_block_txs (chain (n_c n)))
                (last_block_ts (chain (n_c n)))) as [u0|e0];
      [|inversion Hv; reflexivity].
    rewrite produce_loop_spec in Hv. cbv beta iota in Hv.
    match type of Hv with
    | match ?X with Ok _ => _ | Err _ => _ end = _ => destruct X as [c'|e1] eqn:E1
    end; [discriminate|].
    inversion Hv; reflexivity.
  Qed.

  (* item 6, in the weaker shape earlier statements use *)
  Lemma validate_refused_unchanged n ts perm n' e :
    validate n ts perm = (n', Refused e) ->
    n_c n' = n_c n /\
    chain (n_c n') = chain (n_c n) /\ ur (n_c n') = ur (n_c n) /\ ar (n_c n') = ar (n_c n) /\
    (n' = n \/
     (exists l addrs, add_block (n_c n) ts l addrs = Err e) /\
     n_pool n' = match n_pool n with
                 | None => None
                 | Some _ => Some (permute perm (elems (n_pool n)))
                 end).
  Proof.
    intros Hv. unfold Pool.validate in Hv. cbv zeta in Hv.
    assert (Hsame : n' = n -> n_c n' = n_c n /\
       chain (n_c n') = chain (n_c n) /\ ur (n_c n') = ur (n_c n) /\ ar (n_c n') = ar (n_c n) /\
       (n' = n \/
        (exists l addrs, add_block (n_c n) ts l addrs = Err e) /\
        n_pool n' = match n_pool n with
                    | None => None
                    | Some _ => Some (permute perm (elems (n_pool n)))
                    end)).
    { intros ->. repeat split; try reflexivity. left; reflexivity. }
    destruct (negb (last_block_ts (chain (n_c n)) =? 0) && (last_block_ts (chain (n_c n)) =? ts));
      [inversion Hv; subst; apply Hsame; reflexivity|].
    destruct (negb (last_block_ts (chain (n_c n)) =? 0)
              && (last_block_ts (chain (n_c n)) + s_interval S <? ts));
      [inversion Hv; subst; apply Hsame; reflexivity|].
    destruct (update_utxos (ur (n_c n)) (last_block_txs (chain (n_c n)))
                (last_block_ts (chain (n_c n)))) as [u0|e0];
      [|inversion Hv; subst; apply Hsame; reflexivity].
    rewrite produce_loop_spec in Hv. cbv beta iota in Hv.
    match type of Hv with
    | match ?X with Ok _ => _ | Err _ => _ end = _ => destruct X as [c'|e1] eqn:E1
    end; [discriminate|].
    inversion Hv; subst n' e. apply Hsame; reflexivity.
  Qed.

  (* AddBlock re-does the check Validate has just made on its copy (apply the previous tip),
     so in the sequential model it cannot fail there once the block is dated after the tip *)
  Lemma add_block_ok_after_check c ts l addrs u0 :
    chain c = [] \/ last_block_ts (chain c) < ts ->
    update_utxos (ur c) (last_block_txs (chain c)) (last_block_ts (chain c)) = Ok u0 ->
    exists c', add_block c ts l addrs = Ok c'.
  Proof.
    intros Hts. rewrite (add_block_raw_eq _ _ _ _ Hts).
    unfold add_block_raw, last_block_txs, last_block_ts, apply_block.
    destruct (last_block (chain c)) as [lb|]; intros E; [rewrite E|]; eexists; reflexivity.
  Qed.

  (* the reasons for a refusal: the two tick checks, the previous tip not applying, or a tick
     not after the tip that passed the two tick checks (a tick before the tip, or a tip dated 0
     and a tick <= 0) and reaches AddBlock, which refuses it *)
  Lemma validate_refused_cases n ts perm n' e :
    validate n ts perm = (n', Refused e) ->
    (n' = n /\
     (e = ESameTick \/ e = EMissedTick \/
      update_utxos (ur (n_c n)) (last_block_txs (chain (n_c n))) (last_block_ts (chain (n_c n))) = Err e)) \/
    (e = ETime /\ chain (n_c n) <> [] /\ ts <= last_block_ts (chain (n_c n)) /\ n' = n).
  Proof.
    intros Hv. unfold Pool.validate in Hv. cbv zeta in Hv.
    destruct (negb (last_block_ts (chain (n_c n)) =? 0) && (last_block_ts (chain (n_c n)) =? ts));
      [inversion Hv; subst; left; split; [reflexivity|left; reflexivity]|].
    destruct (negb (last_block_ts (chain (n_c n)) =? 0)
              && (last_block_ts (chain (n_c n)) + s_interval S <? ts));
      [inversion Hv; subst; left; split; [reflexivity|right; left; reflexivity]|].
    destruct (update_utxos (ur (n_c n)) (last_block_txs (chain (n_c n)))
                (last_block_ts (chain (n_c n)))) as [u0|e0] eqn:E0;
      [|inversion Hv; subst; left; split; [reflexivity|right; right; reflexivity]].
    rewrite produce_loop_spec in Hv. cbv beta iota in Hv.
    match type of Hv with
    | match ?X with Ok _ => _ | Err _ => _ end = _ => destruct X as [c'|e1] eqn:E1
    end; [discriminate|].
    inversion Hv; subst n' e. clear Hv. right.
    destruct (chain (n_c n)) as [|b0 r0] eqn:Ec.
    { match type of E1 with
      | add_block ?c ?t ?l ?a = _ =>
        destruct (add_block_ok_after_check c t l a u0 (or_introl Ec)) as [c' E2];
          [rewrite Ec; exact E0|]
      end.
      rewrite E2 in E1. discriminate. }
    rewrite <- Ec in *.
    assert (Hne : chain (n_c n) <> []) by (rewrite Ec; discriminate).
    destruct (Z.lt_ge_cases (last_block_ts (chain (n_c n))) ts) as [A|A].
    { match type of E1 with
      | add_block ?c ?t ?l ?a = _ =>
        destruct (add_block_ok_after_check c t l a u0 (or_intror A) E0) as [c' E2]
      end.
      rewrite E2 in E1. discriminate. }
    rewrite (add_block_time _ _ _ _ Hne A) in E1. inversion E1; subst e1.
    split; [reflexivity|]. split; [exact Hne|]. split; [exact A|reflexivity].
  Qed.

  (* hence a refused Validate of a tick after the tip leaves the whole node as it was, and the
     reasons are these three *)
  Lemma validate_refused_same n ts perm n' e :
    chain (n_c n) = [] \/ last_block_ts (chain (n_c n)) < ts ->
    validate n ts perm = (n', Refused e) ->
    n' = n /\
    (e = ESameTick \/ e = EMissedTick \/
     update_utxos (ur (n_c n)) (last_block_txs (chain (n_c n))) (last_block_ts (chain (n_c n))) = Err e).
  Proof.
    intros Hts Hv. destruct (validate_refused_cases _ _ _ _ _ Hv) as [Hs|(_ & Hne & Hle & _)];
      [exact Hs|].
    destruct Hts as [E|A]; [contradiction|lia].
  Qed.

  Lemma validate_same_tick n ts perm :
    last_block_ts (chain (n_c n)) <> 0 -> ts = last_block_ts (chain (n_c n)) ->
    validate n ts perm = (n, Refused ESameTick).
  Proof.
    intros Hne ->. unfold Pool.validate. cbv zeta.
    destruct (Z.eqb_spec (last_block_ts (chain (n_c n))) 0) as [E|_]; [contradiction|].
    rewrite Z.eqb_refl. reflexivity.
  Qed.

  (* [ts <> last] follows from [last + interval < ts] whenever the interval is not negative *)
  Lemma validate_missed_tick n ts perm :
    last_block_ts (chain (n_c n)) <> 0 ->
    ts <> last_block_ts (chain (n_c n)) ->
    last_block_ts (chain (n_c n)) + s_interval S < ts ->
    validate n ts perm = (n, Refused EMissedTick).
  Proof.
    intros Hne Hts Hlt. unfold Pool.validate. cbv zeta.
    destruct (Z.eqb_spec (last_block_ts (chain (n_c n))) 0) as [E|_]; [contradiction|].
    destruct (Z.eqb_spec (last_block_ts (chain (n_c n))) ts) as [E|_]; [congruence|].
    destruct (Z.ltb_spec (last_block_ts (chain (n_c n)) + s_interval S) ts) as [_|E]; [|lia].
    reflexivity.
  Qed.

  Lemma last_block_app c b : last_block (c ++ [b]) = Some b.
  Proof. unfold last_block. rewrite rev_app_distr. reflexivity. Qed.

  (* item 7 *)
  Lemma validate_appends n ts perm n' d :
    validate n ts perm = (n', Produced d) ->
    exists b, chain (n_c n') = chain (n_c n) ++ [b] /\
              last_block (chain (n_c n')) = Some b /\
              b_ts b = ts /\
              b_prev b = match last_block (chain (n_c n)) with
                         | None => zero_hash
                         | Some lb => H lb
                         end /\
              ur (n_c n') = match last_block (chain (n_c n)) with
                            | None => ur (n_c n)
                            | Some lb => match update_utxos (ur (n_c n)) (txs lb) (b_ts lb) with
                                         | Ok u => u
                                         | Err _ => ur (n_c n)
                                         end
                            end.
  Proof.
    intros Hv. pose proof Hv as Hv2. apply validate_produced in Hv. cbv zeta in Hv.
    destruct Hv as [kept [reward [u0 [_ [_ [_ [_ [Hc _]]]]]]]].
    eexists. split; [exact Hc|]. split; [rewrite Hc; apply last_block_app|].
    split; [reflexivity|]. split; [reflexivity|].
    unfold Pool.validate in Hv2. cbv zeta in Hv2.
    destruct (negb (last_block_ts (chain (n_c n)) =? 0) && (last_block_ts (chain (n_c n)) =? ts));
      [discriminate|].
    destruct (negb (last_block_ts (chain (n_c n)) =? 0)
              && (last_block_ts (chain (n_c n)) + s_interval S <? ts)); [discriminate|].
    destruct (update_utxos (ur (n_c n)) (last_block_txs (chain (n_c n)))
                (last_block_ts (chain (n_c n)))) as [u1|e0]; [|discriminate].
    rewrite produce_loop_spec in Hv2. cbv beta iota in Hv2.
    match type of Hv2 with
    | match ?X with Ok _ => _ | Err _ => _ end = _ => destruct X as [c'|e1] eqn:E1
    end; [|discriminate].
    inversion Hv2; subst n' d. cbn [n_c].
    unfold Chain.add_block, add_block_raw in E1.
    destruct (last_block (chain (n_c n))) as [lb|].
    - destruct (ts <=? b_ts lb); [discriminate|]. unfold apply_block in E1.
      destruct (update_utxos (ur (n_c n)) (txs lb) (b_ts lb)) as [u'|e']; [|discriminate].
      inversion E1; reflexivity.
    - inversion E1; reflexivity.
  Qed.

  (* none twice: with distinct pooled ids and a duplicate-free shuffle the kept ids are distinct *)
  Lemma validate_kept_nodup n perm last next ts u0 :
    NoDup (pool_ids n) -> NoDup perm ->
    NoDup (map t_id (greedy last next ts (permute perm (elems (n_pool n))) u0)) /\
    NoDup (greedy last next ts (permute perm (elems (n_pool n))) u0).
  Proof.
    intros Hids Hperm.
    assert (Hnd : NoDup (map t_id (greedy last next ts (permute perm (elems (n_pool n))) u0))).
    { apply greedy_nodup_ids. rewrite permute_map. apply permute_nodup; assumption. }
    split; [exact Hnd|]. exact (NoDup_map_inv _ _ Hnd).
  Qed.

  (* every pooled transaction is tried: kept ++ dropped is a rearrangement of the pool *)
  Lemma validate_tries_all n perm last next ts u0 :
    Permutation perm (seq 0 (length (elems (n_pool n)))) ->
    Permutation (greedy last next ts (permute perm (elems (n_pool n))) u0
                 ++ greedy_rest last next ts (permute perm (elems (n_pool n))) u0)
                (elems (n_pool n)).
  Proof.
    intros Hp. eapply Permutation_trans; [apply greedy_partition|]. apply permute_perm. exact Hp.
  Qed.
End PoolLemmas.
