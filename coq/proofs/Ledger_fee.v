(* Ledger_fee.v — local soundness of CalculateFee (model/Ledger.v: calc_fee, inputs_value,
   outputs_value). These are the lemmas behind C01 (no value from nothing) and
   C03 (only the owner can spend). *)
From Coq Require Import Lia ZArith NArith.
From RV Require Import model.Base model.Ledger.
Local Open Scope N_scope.

(* exact (unbounded) sum of a list of amounts *)
Definition sumN (l : list N) : N := fold_right N.add 0%N l.

Lemma sumN_nil : sumN [] = 0.
Proof. reflexivity. Qed.

Lemma sumN_cons x l : sumN (x :: l) = x + sumN l.
Proof. reflexivity. Qed.

Lemma sumN_app l1 l2 : sumN (l1 ++ l2) = sumN l1 + sumN l2.
Proof.
  induction l1 as [|x r IH]; [reflexivity|].
  rewrite <- app_comm_cons, !sumN_cons, IH. lia.
Qed.

Lemma two64_pos : 0 < two64.
Proof. reflexivity. Qed.

Lemma two64_nz : two64 <> 0.
Proof. unfold two64. discriminate. Qed.

Lemma add64_le a b : add64 a b <= a + b.
Proof. unfold add64. apply N.mod_le, two64_nz. Qed.

Lemma add64_lt a b : add64 a b < two64.
Proof. unfold add64. apply N.mod_lt, two64_nz. Qed.

Lemma add64_exact a b : a + b < two64 -> add64 a b = a + b.
Proof. intros Hlt. unfold add64. apply N.mod_small, Hlt. Qed.

Lemma add64_add_mod a x s : (add64 a x + s) mod two64 = (a + x + s) mod two64.
Proof. unfold add64. apply N.add_mod_idemp_l, two64_nz. Qed.

(* the running uint64 total of a list of fees / values *)
Lemma fold_add64_mod : forall (l : list N) (a : N), a < two64 ->
  fold_left add64 l a = (a + sumN l) mod two64.
Proof.
  induction l as [|x r IH]; intros a Ha.
  - cbn [fold_left]. rewrite sumN_nil, N.add_0_r. symmetry. apply N.mod_small, Ha.
  - cbn [fold_left]. rewrite IH by apply add64_lt.
    rewrite sumN_cons, add64_add_mod. f_equal. lia.
Qed.

Lemma fold_add64_le : forall (l : list N) (a : N), fold_left add64 l a <= a + sumN l.
Proof.
  induction l as [|x r IH]; intros a.
  - cbn [fold_left]. rewrite sumN_nil. lia.
  - cbn [fold_left]. rewrite sumN_cons.
    pose proof (IH (add64 a x)) as H1. pose proof (add64_le a x) as H2. lia.
Qed.

(* ---------------------------------------------------------------- outputs *)

(* A.1 *)
Lemma outputs_value_exact : forall (l : list output) (acc v : N),
  acc < two64 ->
  outputs_value l acc = Some v ->
  v = acc + sumN (map o_val l) /\ v < two64.
Proof.
  induction l as [|o r IH]; intros acc v Hacc Hv.
  - cbn [outputs_value] in Hv. inversion Hv; subst v.
    cbn [map]. rewrite sumN_nil. split; lia.
  - cbn [outputs_value] in Hv.
    destruct (N.leb_spec two64 (acc + o_val o)) as [Hle|Hlt]; [discriminate Hv|].
    apply IH in Hv; [|exact Hlt]. destruct Hv as [Hv1 Hv2].
    cbn [map]. rewrite sumN_cons. split; lia.
Qed.

Lemma outputs_value_complete : forall (l : list output) (acc : N),
  acc + sumN (map o_val l) < two64 ->
  outputs_value l acc = Some (acc + sumN (map o_val l)).
Proof.
  induction l as [|o r IH]; intros acc Hlt.
  - cbn [outputs_value map]. rewrite sumN_nil, N.add_0_r. reflexivity.
  - cbn [map] in *. rewrite sumN_cons in *. cbn [outputs_value].
    destruct (N.leb_spec two64 (acc + o_val o)) as [Hle|Hlt']; [lia|].
    rewrite IH by lia. f_equal. lia.
Qed.

Lemma outputs_value_none : forall (l : list output) (acc : N),
  outputs_value l acc = None -> two64 <= acc + sumN (map o_val l).
Proof.
  intros l acc Hn.
  destruct (N.lt_ge_cases (acc + sumN (map o_val l)) two64) as [Hlt|Hge]; [|exact Hge].
  rewrite outputs_value_complete in Hn by exact Hlt. discriminate Hn.
Qed.

(* the pinned tree's wrapping sum is the exact sum modulo 2^64 *)
Lemma outputs_value_wrapping_mod (l : list output) :
  outputs_value_wrapping l = sumN (map o_val l) mod two64.
Proof.
  unfold outputs_value_wrapping.
  assert (G : forall (l : list output) (a : N), a < two64 ->
            fold_left (fun acc o => add64 acc (o_val o)) l a = (a + sumN (map o_val l)) mod two64).
  { clear l. induction l as [|o r IH]; intros a Ha.
    - cbn [fold_left map]. rewrite sumN_nil, N.add_0_r. symmetry. apply N.mod_small, Ha.
    - cbn [fold_left map]. rewrite IH by apply add64_lt.
      rewrite sumN_cons, add64_add_mod. f_equal. lia. }
  rewrite G by apply two64_pos. reflexivity.
Qed.

(* ----------------------------------------------------------------- inputs *)

Section Fee.
  Variable value_fn : N -> bool -> Z -> N.
  Variable addr_of : string -> string.

  Lemma find_utxo_err (reg : ureg) (i : input) (e : err) :
    find_utxo reg i = Err e -> e = EUnknownId \/ e = ENoIndex.
  Proof.
    unfold find_utxo. intros Hf.
    destruct (alookup (i_ref i) (by_id reg)) as [us|] eqn:E1.
    - destruct (nth_error us (N.to_nat (i_idx i))) as [[u|]|] eqn:E2;
        inversion Hf; subst; right; reflexivity.
    - inversion Hf; subst; left; reflexivity.
  Qed.

  (* an input that passes find_utxo names an existing, unconsumed slot *)
  Lemma find_utxo_ok (reg : ureg) (i : input) (u : utxo) :
    find_utxo reg i = Ok u <->
    exists us, alookup (i_ref i) (by_id reg) = Some us /\
               nth_error us (N.to_nat (i_idx i)) = Some (Some u).
  Proof.
    unfold find_utxo. split.
    - intros Hf. destruct (alookup (i_ref i) (by_id reg)) as [us|] eqn:E1; [|discriminate Hf].
      destruct (nth_error us (N.to_nat (i_idx i))) as [[u'|]|] eqn:E2; try discriminate Hf.
      inversion Hf; subst u'. exists us. split; [reflexivity|exact E2].
    - intros [us [E1 E2]]. rewrite E1, E2. reflexivity.
  Qed.

  (* A.2 *)
  (* The equation [v = (acc + sum) mod two64] needs acc < two64 (for the empty list v = acc);
     it is stated under that hypothesis. The inequality holds unconditionally. *)
  Lemma inputs_value_sound : forall (reg : ureg) (l : list input) (t : Z) (acc v : N),
    inputs_value value_fn addr_of reg l t acc = Ok v ->
    exists us : list utxo,
      Forall2 (fun i u => find_utxo reg i = Ok u /\ o_addr (u_out u) = addr_of (i_key i)) l us /\
      (acc < two64 -> v = (acc + sumN (map (fun u => utxo_value value_fn u t) us)) mod two64) /\
      v <= acc + sumN (map (fun u => utxo_value value_fn u t) us).
  Proof.
    intros reg. induction l as [|i r IH]; intros t acc v Hv.
    - cbn [inputs_value] in Hv. inversion Hv; subst v. exists [].
      cbn [map]. rewrite sumN_nil, N.add_0_r.
      split; [constructor|]. split; [|lia].
      intros Ha. symmetry. apply N.mod_small, Ha.
    - cbn [inputs_value] in Hv.
      destruct (find_utxo reg i) as [u|e] eqn:Ef; [|discriminate Hv].
      destruct (String.eqb (o_addr (u_out u)) (addr_of (i_key i))) eqn:Eo; [|discriminate Hv].
      apply String.eqb_eq in Eo.
      apply IH in Hv. destruct Hv as [us [HF [Hmod Hle]]].
      exists (u :: us). cbn [map]. rewrite sumN_cons.
      split; [constructor; [split; [exact Ef|exact Eo]|exact HF]|].
      split.
      + intros _. rewrite (Hmod (add64_lt _ _)), add64_add_mod. f_equal. lia.
      + pose proof (add64_le acc (utxo_value value_fn u t)) as H1. lia.
  Qed.

  Lemma inputs_value_err : forall (reg : ureg) (l : list input) (t : Z) (acc : N) (e : err),
    inputs_value value_fn addr_of reg l t acc = Err e ->
    e = EUnknownId \/ e = ENoIndex \/ e = EOwner.
  Proof.
    intros reg. induction l as [|i r IH]; intros t acc e He.
    - cbn [inputs_value] in He. discriminate He.
    - cbn [inputs_value] in He.
      destruct (find_utxo reg i) as [u|e'] eqn:Ef.
      + destruct (String.eqb (o_addr (u_out u)) (addr_of (i_key i))) eqn:Eo.
        * apply IH in He. exact He.
        * inversion He; subst e. right; right; reflexivity.
      + inversion He; subst e'. apply find_utxo_err in Ef. tauto.
  Qed.

  (* the consumed outputs are determined by the inputs *)
  Lemma spent_unique : forall (reg : ureg) (l : list input) (us us' : list utxo),
    Forall2 (fun i u => find_utxo reg i = Ok u /\ o_addr (u_out u) = addr_of (i_key i)) l us ->
    Forall2 (fun i u => find_utxo reg i = Ok u /\ o_addr (u_out u) = addr_of (i_key i)) l us' ->
    us = us'.
  Proof.
    intros reg l us us' H1. revert us'.
    induction H1 as [|i u l us [Hf _] _ IH]; intros us' H2.
    - inversion H2; reflexivity.
    - inversion H2 as [|i' u' l' us'' [Hf' _] Hr]; subst.
      rewrite Hf in Hf'. inversion Hf'; subst u'. f_equal. apply IH, Hr.
  Qed.

  (* -------------------------------------------------------------- calc_fee *)

  (* A.3 — the key lemma of C01 (and, through the Forall2, of C03) *)
  Lemma calc_fee_exact : forall (fee : N) (reg : ureg) (t : tx) (ts : Z) (f : N),
    calc_fee value_fn addr_of fee reg t ts = Ok f ->
    exists us : list utxo,
      Forall2 (fun i u => find_utxo reg i = Ok u /\ o_addr (u_out u) = addr_of (i_key i)) (ins t) us /\
      sumN (map o_val (outs t)) + f <= sumN (map (fun u => utxo_value value_fn u ts) us) /\
      fee <= f /\
      sumN (map o_val (outs t)) < two64.
  Proof.
    intros fee reg t ts f Hc. unfold calc_fee in Hc.
    destruct (inputs_value value_fn addr_of reg (ins t) ts 0) as [iv|e] eqn:Ei; [|discriminate Hc].
    destruct (outputs_value (outs t) 0) as [ov|] eqn:Eo; [|discriminate Hc].
    destruct (N.ltb_spec iv ov) as [Hlt|Hge]; [discriminate Hc|].
    destruct (N.ltb_spec (iv - ov) fee) as [Hlt2|Hge2]; [discriminate Hc|].
    inversion Hc; subst f.
    apply inputs_value_sound in Ei. destruct Ei as [us [HF [_ Hle]]].
    apply outputs_value_exact in Eo; [|apply two64_pos]. destruct Eo as [Eo1 Eo2].
    exists us. split; [exact HF|]. split; [lia|]. split; [exact Hge2|lia].
  Qed.

  (* the fee itself is a uint64 *)
  Lemma calc_fee_lt : forall (fee : N) (reg : ureg) (t : tx) (ts : Z) (f : N),
    calc_fee value_fn addr_of fee reg t ts = Ok f -> f < two64.
  Proof.
    intros fee reg t ts f Hc. unfold calc_fee in Hc.
    destruct (inputs_value value_fn addr_of reg (ins t) ts 0) as [iv|e] eqn:Ei; [|discriminate Hc].
    destruct (outputs_value (outs t) 0) as [ov|] eqn:Eo; [|discriminate Hc].
    destruct (N.ltb_spec iv ov) as [Hlt|Hge]; [discriminate Hc|].
    destruct (N.ltb_spec (iv - ov) fee) as [Hlt2|Hge2]; [discriminate Hc|].
    inversion Hc; subst f.
    apply inputs_value_sound in Ei. destruct Ei as [us [_ [Hmod _]]].
    pose proof (Hmod two64_pos) as Hm.
    pose proof (N.mod_lt (0 + sumN (map (fun u => utxo_value value_fn u ts) us)) two64 two64_nz) as Hb.
    rewrite <- Hm in Hb. lia.
  Qed.

  (* A.5 — the errors CalculateFee can report; in particular it never panics *)
  Lemma calc_fee_err : forall (fee : N) (reg : ureg) (t : tx) (ts : Z) (e : err),
    calc_fee value_fn addr_of fee reg t ts = Err e ->
    e = EUnknownId \/ e = ENoIndex \/ e = EOwner \/ e = EOverflow \/ e = ENegFee \/ e = ELowFee.
  Proof.
    intros fee reg t ts e Hc. unfold calc_fee in Hc.
    destruct (inputs_value value_fn addr_of reg (ins t) ts 0) as [iv|e'] eqn:Ei.
    - destruct (outputs_value (outs t) 0) as [ov|] eqn:Eo.
      + destruct (iv <? ov) eqn:E1; [inversion Hc; subst; tauto|].
        destruct (iv - ov <? fee) eqn:E2; [inversion Hc; subst; tauto|discriminate Hc].
      + inversion Hc; subst; tauto.
    - inversion Hc; subst e'. apply inputs_value_err in Ei. tauto.
  Qed.

  Lemma calc_fee_err_no_state : forall (fee : N) (reg : ureg) (t : tx) (ts : Z) (s : panic_site),
    calc_fee value_fn addr_of fee reg t ts <> Err (EPanic s).
  Proof.
    intros fee reg t ts s Hc. apply calc_fee_err in Hc.
    destruct Hc as [Hc|[Hc|[Hc|[Hc|[Hc|Hc]]]]]; discriminate Hc.
  Qed.

  (* a transaction without input (a reward) never has a fee of its own unless it is empty-valued *)
  Lemma calc_fee_no_inputs : forall (fee : N) (reg : ureg) (t : tx) (ts : Z) (f : N),
    ins t = [] ->
    calc_fee value_fn addr_of fee reg t ts = Ok f ->
    f = 0 /\ fee = 0 /\ sumN (map o_val (outs t)) = 0.
  Proof.
    intros fee reg t ts f Hi Hc. apply calc_fee_exact in Hc.
    destruct Hc as [us [HF [Hle [Hfee _]]]]. rewrite Hi in HF. inversion HF; subst us.
    cbn [map] in Hle. rewrite sumN_nil in Hle. lia.
  Qed.
End Fee.

(* ------------------------------------------------ the pinned tree's variant *)

(* A.4 — with the wrapping output sum (defect D1) the bound of calc_fee_exact fails:
   one consumed output worth 2^40, three outputs worth 2^63 + 2^63 + 5 = 2^64 + 5. *)
Definition wr_value_fn : N -> bool -> Z -> N := fun v _ _ => v.
Definition wr_addr_of : string -> string := fun _ => "a"%string.
Definition wr_utxo : utxo :=
  mkUtxo "r"%string 0 (mkOutput "a"%string false 1099511627776) 0%Z.
Definition wr_reg : ureg :=
  mkUreg [("a"%string, [wr_utxo])] [("r"%string, [Some wr_utxo])].
Definition wr_tx : tx :=
  mkTx "t"%string
       (Some [mkInput 0 "r"%string "k"%string "s"%string])
       (Some [mkOutput "b"%string false 9223372036854775808;
              mkOutput "b"%string false 9223372036854775808;
              mkOutput "b"%string false 5])
       0%Z.

Lemma calc_fee_wrapping_refuted :
  exists (reg : ureg) (t : tx) (f : N) (us : list utxo),
    calc_fee_wrapping wr_value_fn wr_addr_of 1 reg t 0%Z = Ok f /\
    Forall2 (fun i u => find_utxo reg i = Ok u /\ o_addr (u_out u) = wr_addr_of (i_key i)) (ins t) us /\
    sumN (map (fun u => utxo_value wr_value_fn u 0%Z) us) = 1099511627776 /\
    sumN (map o_val (outs t)) = 18446744073709551621 /\
    sumN (map (fun u => utxo_value wr_value_fn u 0%Z) us) < sumN (map o_val (outs t)) /\
    ~ (exists us' : list utxo,
         Forall2 (fun i u => find_utxo reg i = Ok u /\ o_addr (u_out u) = wr_addr_of (i_key i)) (ins t) us' /\
         sumN (map o_val (outs t)) + f <= sumN (map (fun u => utxo_value wr_value_fn u 0%Z) us')).
Proof.
  exists wr_reg, wr_tx, 1099511627771, [wr_utxo].
  assert (HF : Forall2 (fun i u => find_utxo wr_reg i = Ok u /\ o_addr (u_out u) = wr_addr_of (i_key i))
                       (ins wr_tx) [wr_utxo]).
  { unfold ins, wr_tx. cbn [t_ins elems].
    constructor; [|constructor]. split; vm_compute; reflexivity. }
  split; [vm_compute; reflexivity|].
  split; [exact HF|].
  split; [vm_compute; reflexivity|].
  split; [vm_compute; reflexivity|].
  split; [vm_compute; reflexivity|].
  intros [us' [HF' Hle]].
  rewrite (spent_unique wr_addr_of wr_reg (ins wr_tx) us' [wr_utxo] HF' HF) in Hle.
  vm_compute in Hle. apply Hle. reflexivity.
Qed.

(* the same transaction is refused by the overflow-checked calc_fee *)
Lemma calc_fee_refuses_wrapping_witness :
  calc_fee wr_value_fn wr_addr_of 1 wr_reg wr_tx 0%Z = Err EOverflow.
Proof. vm_compute. reflexivity. Qed.
