(* Layout_lemmas.v — the fork choice (model/Sync.v: last_recipient, age_loop, age_of, select;
   blockchain.go:202-231) does not depend on WHERE a block keeps its reward transaction.

   verify_block (model/Chain.v) accepts the one reward of a block at any position of the
   transaction list; the pool of this implementation always appends it last, a neighbor may serve
   another layout. age_of reads, per block, the recipient of the LAST reward (tip) and of the FIRST
   reward (earlier blocks): with at most one reward per block both are "the" reward, wherever it is.

   Contents
     1. rewards b (the reward transactions of a block, in order); find / fold read only them
     2. same_layout_free b b' (b' is b with its transaction list permuted), rewards are unchanged
     3. age_of_layout_invariant
     4. select_layout_invariant (same position, same target, layout-permuted chain)
     5. the seeded change "look at the last transaction only" (age_of_last_only): agrees with
        age_of on the layout this implementation produces, is refuted on a legal other layout.
   [txs b] is the transaction list of the block ([elems (b_txs b)], nil and empty slice both []). *)
From Coq Require Import Lia ZArith NArith Permutation.
From RV Require Import model.Base model.Ledger model.Registry model.Chain model.Sync model.Reach
     proofs.Chain_verify proofs.Sync_lemmas.

(* ------------------------------------------------------------------ *)
(* 0. one_reward is what verify_block guarantees                       *)
(* ------------------------------------------------------------------ *)

(* [one_reward b] is model/Reach.v's: length (filter is_reward (txs b)) = 1 *)
Lemma one_reward_unfold (b : block) :
  one_reward b <-> length (filter is_reward (txs b)) = 1%nat.
Proof. unfold one_reward. split; intros Hx; exact Hx. Qed.

Lemma verify_block_one_reward
      (value_fn : N -> bool -> Z -> N) (addr_of : string -> string) (sig_ok : input -> bool)
      (S : settings) (c : cstate) (b : block) (prev_ts now : Z) :
  verify_block value_fn addr_of sig_ok S c b prev_ts now = Ok tt -> one_reward b.
Proof.
  intros Hv.
  destruct (verify_block_sound value_fn addr_of sig_ok S c b prev_ts now Hv) as [_ [_ [Hlen _]]].
  exact Hlen.
Qed.

(* ------------------------------------------------------------------ *)
(* 1. what age_of reads of a block                                     *)
(* ------------------------------------------------------------------ *)

Definition rewards (b : block) : list tx := filter is_reward (txs b).

Definition at_most_one_reward (b : block) : Prop := (length (rewards b) <= 1)%nat.

Lemma one_reward_at_most (b : block) : one_reward b -> at_most_one_reward b.
Proof. unfold one_reward, at_most_one_reward, rewards. intros Hx. rewrite Hx. apply le_n. Qed.

Lemma find_hd_filter {A} (p : A -> bool) (l : list A) : find p l = hd_error (filter p l).
Proof.
  induction l as [|a r IH]; [reflexivity|].
  cbn [find filter]. destruct (p a) eqn:Ea; [reflexivity|exact IH].
Qed.

Lemma fold_cond_filter {A B} (p : A -> bool) (f : A -> B) (l : list A) : forall acc : B,
  fold_left (fun a t => if p t then f t else a) l acc =
  fold_left (fun _ t => f t) (filter p l) acc.
Proof.
  induction l as [|x r IH]; intros acc; [reflexivity|].
  cbn [fold_left filter]. destruct (p x) eqn:Ex.
  - cbn [fold_left]. apply IH.
  - apply IH.
Qed.

Lemma last_recipient_rewards (b : block) :
  last_recipient b = fold_left (fun _ t => reward_addr t) (rewards b) EmptyString.
Proof. unfold last_recipient, rewards. apply fold_cond_filter. Qed.

Lemma find_rewards (b : block) : find is_reward (txs b) = hd_error (rewards b).
Proof. unfold rewards. apply find_hd_filter. Qed.

Lemma age_loop_rewards : forall (l l' : list block),
  map rewards l = map rewards l' ->
  forall (target : string) (age : N), age_loop target l age = age_loop target l' age.
Proof.
  induction l as [|b r IH]; intros l' Hm target age; destruct l' as [|b' r'].
  - reflexivity.
  - discriminate Hm.
  - discriminate Hm.
  - cbn [map] in Hm. injection Hm as Hb Hr.
    cbn [age_loop]. rewrite !find_rewards, Hb.
    destruct (hd_error (rewards b')) as [t|] eqn:Eh.
    + destruct (String.eqb (reward_addr t) target) eqn:Et; [reflexivity|].
      apply IH. exact Hr.
    + apply IH. exact Hr.
Qed.

(* age_of is a function of the reward lists of the blocks *)
Lemma age_of_rewards (c c' : list block) :
  map rewards c = map rewards c' -> age_of c = age_of c'.
Proof.
  intros Hm. unfold age_of.
  assert (Hr : map rewards (rev c) = map rewards (rev c')).
  { rewrite !map_rev, Hm. reflexivity. }
  destruct (rev c) as [|l r]; destruct (rev c') as [|l' r'].
  - reflexivity.
  - discriminate Hr.
  - discriminate Hr.
  - cbn [map] in Hr. injection Hr as Hl Ht.
    rewrite !last_recipient_rewards, Hl. apply age_loop_rewards. exact Ht.
Qed.

(* ------------------------------------------------------------------ *)
(* 2. layouts                                                          *)
(* ------------------------------------------------------------------ *)

(* b' is b with its transaction list permuted; a nil slice stays nil, a non-nil one non-nil
   (they differ on the wire: "null" / "[]"), every other field is the same *)
Definition same_layout_free (b b' : block) : Prop :=
  b_prev b = b_prev b' /\ b_added b = b_added b' /\ b_removed b = b_removed b' /\
  b_ts b = b_ts b' /\
  match b_txs b, b_txs b' with
  | None, None => True
  | Some l, Some l' => Permutation l l'
  | _, _ => False
  end.

Lemma same_layout_free_txs (b b' : block) :
  same_layout_free b b' -> Permutation (txs b) (txs b').
Proof.
  intros [_ [_ [_ [_ Hp]]]]. unfold txs, elems.
  destruct (b_txs b) as [l|]; destruct (b_txs b') as [l'|].
  - exact Hp.
  - destruct Hp.
  - destruct Hp.
  - apply perm_nil.
Qed.

Lemma same_layout_free_refl (b : block) : same_layout_free b b.
Proof.
  unfold same_layout_free. repeat split.
  destruct (b_txs b) as [l|]; [apply Permutation_refl|exact I].
Qed.

Lemma same_layout_free_sym (b b' : block) : same_layout_free b b' -> same_layout_free b' b.
Proof.
  intros [H1 [H2 [H3 [H4 H5]]]]. unfold same_layout_free.
  split; [symmetry; exact H1|]. split; [symmetry; exact H2|].
  split; [symmetry; exact H3|]. split; [symmetry; exact H4|].
  destruct (b_txs b) as [l|]; destruct (b_txs b') as [l'|]; try exact H5.
  apply Permutation_sym. exact H5.
Qed.

Lemma Permutation_filter' {A} (p : A -> bool) (l l' : list A) :
  Permutation l l' -> Permutation (filter p l) (filter p l').
Proof.
  intros Hp. induction Hp as [|x l l' Hp IH|x y l|l l' l'' Hp1 IH1 Hp2 IH2].
  - apply perm_nil.
  - cbn [filter]. destruct (p x); [apply perm_skip; exact IH|exact IH].
  - cbn [filter]. destruct (p x); destruct (p y);
      try apply Permutation_refl. apply perm_swap.
  - eapply perm_trans; [exact IH1|exact IH2].
Qed.

Lemma Permutation_short_eq {A} (l l' : list A) :
  (length l <= 1)%nat -> Permutation l l' -> l = l'.
Proof.
  intros Hlen Hp. destruct l as [|a [|a2 r]].
  - symmetry. apply Permutation_nil. exact Hp.
  - symmetry. apply Permutation_length_1_inv. exact Hp.
  - cbn [length] in Hlen. lia.
Qed.

(* a permutation moves the reward but cannot change which one it is *)
Lemma rewards_perm_eq (b b' : block) :
  Permutation (txs b) (txs b') -> at_most_one_reward b -> rewards b = rewards b'.
Proof.
  intros Hp Hone. apply Permutation_short_eq; [exact Hone|].
  unfold rewards. apply Permutation_filter'. exact Hp.
Qed.

Lemma one_reward_perm (b b' : block) :
  Permutation (txs b) (txs b') -> one_reward b -> one_reward b'.
Proof.
  intros Hp Hone. unfold one_reward in *.
  rewrite <- (Permutation_length (Permutation_filter' is_reward _ _ Hp)). exact Hone.
Qed.

Lemma same_layout_one_reward (b b' : block) :
  same_layout_free b b' -> one_reward b -> one_reward b'.
Proof. intros Hs. apply one_reward_perm. apply same_layout_free_txs. exact Hs. Qed.

Lemma rewards_map_perm : forall (l l' : list block),
  Forall2 (fun b b' => Permutation (txs b) (txs b')) l l' ->
  Forall at_most_one_reward l ->
  map rewards l = map rewards l'.
Proof.
  intros l l' HF. induction HF as [|b b' r r' Hb Hr IH]; intros Hone.
  - reflexivity.
  - inversion Hone as [|x y Hx Hy]; subst.
    cbn [map]. rewrite (rewards_perm_eq b b' Hb Hx), (IH Hy). reflexivity.
Qed.

(* ------------------------------------------------------------------ *)
(* 3. age_of                                                           *)
(* ------------------------------------------------------------------ *)

Lemma Forall2_weaken {A B} (R R' : A -> B -> Prop) :
  (forall x y, R x y -> R' x y) ->
  forall (l : list A) (l' : list B), Forall2 R l l' -> Forall2 R' l l'.
Proof.
  intros HR l l' HF. induction HF as [|x y r r' Hxy Hr IH]; constructor; auto.
Qed.

(* general form: only the transaction lists matter, and "at most one reward" is enough
   (so a first block without any reward is covered too) *)
Lemma age_of_perm_invariant (l l' : list block) :
  Forall2 (fun b b' => Permutation (txs b) (txs b')) l l' ->
  Forall at_most_one_reward l ->
  age_of l = age_of l'.
Proof. intros HF Hone. apply age_of_rewards. apply rewards_map_perm; assumption. Qed.

Lemma age_of_layout_invariant (l l' : list block) :
  Forall2 same_layout_free l l' ->
  Forall one_reward l ->
  age_of l = age_of l'.
Proof.
  intros HF Hone. apply age_of_perm_invariant.
  - apply (Forall2_weaken same_layout_free); [|exact HF].
    intros b b' Hs. apply same_layout_free_txs. exact Hs.
  - eapply Forall_impl; [|exact Hone]. intros b Hb. apply one_reward_at_most. exact Hb.
Qed.

(* the hypothesis on the rewards cannot be dropped: with two rewards in a block the FIRST one
   counts for an earlier block, and a permutation changes which one is first *)
Definition mk_reward (a : string) : tx :=
  mkTx EmptyString (Some []) (Some [mkOutput a false 0%N]) 0%Z.
Definition mk_payment : tx :=
  mkTx "p"%string (Some [mkInput 0%N "r"%string "k"%string "s"%string])
       (Some [mkOutput "D"%string false 1%N]) 0%Z.
Definition mk_blk (l : list tx) : block := mkBlock [] None None 0%Z (Some l).

Lemma age_of_layout_needs_one_reward :
  exists l l' : list block,
    Forall2 same_layout_free l l' /\ age_of l <> age_of l'.
Proof.
  exists [mk_blk [mk_reward "A"%string]; mk_blk [mk_reward "B"%string; mk_reward "A"%string];
          mk_blk [mk_reward "A"%string]],
         [mk_blk [mk_reward "A"%string]; mk_blk [mk_reward "A"%string; mk_reward "B"%string];
          mk_blk [mk_reward "A"%string]].
  split.
  - constructor; [apply same_layout_free_refl|].
    constructor; [|constructor; [apply same_layout_free_refl|constructor]].
    unfold same_layout_free, mk_blk. cbn [b_prev b_added b_removed b_ts b_txs].
    repeat split. apply perm_swap.
  - vm_compute. discriminate.
Qed.

(* ------------------------------------------------------------------ *)
(* 4. select                                                           *)
(* ------------------------------------------------------------------ *)

(* two candidates of the same target whose chains are block by block layout-permutations *)
Definition cand_layout (p p' : string * list block) : Prop :=
  fst p = fst p' /\ Forall2 same_layout_free (snd p) (snd p').

Definition cands_one_reward (m : cands) : Prop :=
  Forall (fun p : string * list block => Forall one_reward (snd p)) m.

Definition orel {A} (Q : A -> A -> Prop) (o o' : option A) : Prop :=
  match o, o' with
  | None, None => True
  | Some c, Some c' => Q c c'
  | _, _ => False
  end.

Lemma Forall2_and_left {A B} (R : A -> B -> Prop) (P : A -> Prop) : forall (l : list A) (l' : list B),
  Forall2 R l l' -> Forall P l -> Forall2 (fun x y => R x y /\ P x) l l'.
Proof.
  intros l l' HF. induction HF as [|x y r r' Hxy Hr IH]; intros HP.
  - constructor.
  - inversion HP as [|a b Ha Hb]; subst. constructor; [split; assumption|apply IH; exact Hb].
Qed.

(* remember the common position of each related pair *)
Lemma Forall2_positions_aux {A B} (R : A -> B -> Prop) : forall (l : list A) (l' : list B),
  Forall2 R l l' ->
  forall (pre : list A) (pre' : list B), length pre = length pre' ->
  Forall2 (fun x y => R x y /\ exists i, nth_error (pre ++ l) i = Some x /\
                                          nth_error (pre' ++ l') i = Some y) l l'.
Proof.
  intros l l' HF. induction HF as [|x y r r' Hxy Hr IH]; intros pre pre' Hlen.
  - constructor.
  - constructor.
    + split; [exact Hxy|]. exists (length pre). split.
      * rewrite nth_error_app2 by apply le_n. rewrite Nat.sub_diag. reflexivity.
      * rewrite Hlen. rewrite nth_error_app2 by apply le_n. rewrite Nat.sub_diag. reflexivity.
    + specialize (IH (pre ++ [x]) (pre' ++ [y])).
      rewrite <- !app_assoc in IH. cbn [app] in IH. apply IH.
      rewrite !app_length. cbn [length]. rewrite Hlen. reflexivity.
Qed.

Lemma Forall2_positions {A B} (R : A -> B -> Prop) (l : list A) (l' : list B) :
  Forall2 R l l' ->
  Forall2 (fun x y => R x y /\ exists i, nth_error l i = Some x /\ nth_error l' i = Some y) l l'.
Proof. intros HF. exact (Forall2_positions_aux R l l' HF [] [] eq_refl). Qed.

Lemma Forall2_filter2 {A B} (Q : A -> B -> Prop) (f : A -> bool) (g : B -> bool) :
  (forall x y, Q x y -> f x = g y) ->
  forall (l : list A) (l' : list B), Forall2 Q l l' -> Forall2 Q (filter f l) (filter g l').
Proof.
  intros Hfg l l' HF. induction HF as [|x y r r' Hxy Hr IH].
  - constructor.
  - cbn [filter]. rewrite <- (Hfg x y Hxy). destruct (f x); [constructor; assumption|exact IH].
Qed.

Lemma order_cands_rel (Q : string * list block -> string * list block -> Prop) (pref : string) :
  (forall p p', Q p p' -> fst p = fst p') ->
  forall m m' : cands, Forall2 Q m m' -> Forall2 Q (order_cands pref m) (order_cands pref m').
Proof.
  intros Hfst m m' HF. unfold order_cands. apply Forall2_app.
  - apply Forall2_filter2; [|exact HF]. intros p p' Hq. rewrite (Hfst p p' Hq). reflexivity.
  - apply Forall2_filter2; [|exact HF]. intros p p' Hq. rewrite (Hfst p p' Hq). reflexivity.
Qed.

(* the arg-max loop run on two lists with pairwise equal ages takes the same decisions *)
Lemma sel_fold_rel (Q : string * list block -> string * list block -> Prop) :
  (forall p p', Q p p' -> age_of (snd p) = age_of (snd p')) ->
  forall l l' : cands, Forall2 Q l l' ->
  forall acc acc' : N * option (list block),
    fst acc = fst acc' ->
    orel (fun c c' => exists t t', Q (t, c) (t', c')) (snd acc) (snd acc') ->
    fst (fold_left sel_step l acc) = fst (fold_left sel_step l' acc') /\
    orel (fun c c' => exists t t', Q (t, c) (t', c'))
         (snd (fold_left sel_step l acc)) (snd (fold_left sel_step l' acc')).
Proof.
  intros Hage l l' HF. induction HF as [|p p' r r' Hp Hr IH]; intros acc acc' Hfst Hsnd.
  - cbn [fold_left]. split; assumption.
  - cbn [fold_left]. apply IH.
    + unfold sel_step. rewrite <- (Hage p p' Hp), <- Hfst.
      destruct (fst acc <? age_of (snd p))%N; [reflexivity|exact Hfst].
    + unfold sel_step. rewrite <- (Hage p p' Hp), <- Hfst.
      destruct (fst acc <? age_of (snd p))%N; [|exact Hsnd].
      cbn [snd orel]. exists (fst p), (fst p').
      destruct p as [t c]; destruct p' as [t' c']. exact Hp.
Qed.

(* Whatever the iteration order [pref]: both rounds select nothing, or they select the candidate
   at the same position of the two candidate lists — same target, chains that are layout
   permutations of each other, same waiting time. *)
Lemma select_layout_invariant (pref : string) (m m' : cands) :
  Forall2 cand_layout m m' ->
  cands_one_reward m ->
  match select pref m, select pref m' with
  | None, None => True
  | Some c, Some c' =>
    exists (i : nat) (t : string),
      nth_error m i = Some (t, c) /\ nth_error m' i = Some (t, c') /\
      Forall2 same_layout_free c c' /\ age_of c = age_of c'
  | _, _ => False
  end.
Proof.
  intros HF Hone.
  pose (Q := fun p p' : string * list block =>
               (cand_layout p p' /\ Forall one_reward (snd p)) /\
               exists i, nth_error m i = Some p /\ nth_error m' i = Some p').
  assert (HQ : Forall2 Q m m').
  { unfold Q. apply Forall2_positions.
    apply (Forall2_and_left cand_layout (fun p => Forall one_reward (snd p))); assumption. }
  assert (Hfst : forall p p', Q p p' -> fst p = fst p').
  { intros p p' [[[Hf _] _] _]. exact Hf. }
  assert (Hage : forall p p', Q p p' -> age_of (snd p) = age_of (snd p')).
  { intros p p' [[[_ Hl] Ho] _]. apply age_of_layout_invariant; assumption. }
  pose proof (order_cands_rel Q pref Hfst m m' HQ) as HO.
  destruct (sel_fold_rel Q Hage _ _ HO (0%N, None) (0%N, None) eq_refl I) as [_ Hsel].
  rewrite !select_eq.
  destruct (snd (fold_left sel_step (order_cands pref m) (0%N, None))) as [c|];
    destruct (snd (fold_left sel_step (order_cands pref m') (0%N, None))) as [c'|];
    cbn [orel] in Hsel; try exact Hsel.
  destruct Hsel as [t [t' Hq]].
  pose proof (Hage _ _ Hq) as Ha. cbn [snd] in Ha.
  destruct Hq as [[[Hf Hl] _] [i [Hi Hi']]]. cbn [fst snd] in Hf, Hl. subst t'.
  exists i, t. split; [exact Hi|]. split; [exact Hi'|]. split; [exact Hl|exact Ha].
Qed.

(* in particular one round selects nothing exactly when the other does *)
Lemma select_layout_none (pref : string) (m m' : cands) :
  Forall2 cand_layout m m' -> cands_one_reward m ->
  (select pref m = None <-> select pref m' = None).
Proof.
  intros HF Hone. pose proof (select_layout_invariant pref m m' HF Hone) as Hs.
  destruct (select pref m) as [c|]; destruct (select pref m') as [c'|]; try destruct Hs.
  - split; intros Hx; discriminate Hx.
  - split; intros _; reflexivity.
Qed.

(* ------------------------------------------------------------------ *)
(* 5. the seeded change: look at the last transaction of a block only  *)
(* ------------------------------------------------------------------ *)

Definition last_tx (b : block) : option tx :=
  match rev (txs b) with [] => None | t :: _ => Some t end.

(* seeded change C06f: in the loop over the earlier blocks, a block counts only if its LAST
   transaction is a reward; the tip's validator is still read as before *)
Fixpoint age_loop_last_only (target : string) (rev_blocks : list block) (age : N) : N :=
  match rev_blocks with
  | [] => age
  | b :: r =>
    match last_tx b with
    | None => age_loop_last_only target r age
    | Some t =>
      if is_reward t then
        if String.eqb (reward_addr t) target then (age + 1)%N
        else age_loop_last_only target r (age + 1)%N
      else age_loop_last_only target r age
    end
  end.

Definition age_of_last_only (c : list block) : N :=
  match rev c with [] => 0%N | l :: r => age_loop_last_only (last_recipient l) r 0%N end.

Definition select_last_only (pref : string) (m : cands) : option (list block) :=
  snd (fold_left (fun (acc : N * option (list block)) p =>
                    if (fst acc <? age_of_last_only (snd p))%N
                    then (age_of_last_only (snd p), Some (snd p)) else acc)
                 (order_cands pref m) (0%N, None)).

(* the layout this implementation's pool produces: exactly one reward, and it is last *)
Definition reward_last (b : block) : Prop :=
  one_reward b /\ exists t, last_tx b = Some t /\ is_reward t = true.

Lemma filter_nil_len0 {A} (p : A -> bool) (l : list A) :
  length (filter p l) = 0%nat -> filter p l = [].
Proof. destruct (filter p l); [reflexivity|discriminate]. Qed.

Lemma reward_last_find (b : block) (t : tx) :
  one_reward b -> last_tx b = Some t -> is_reward t = true -> find is_reward (txs b) = Some t.
Proof.
  unfold one_reward, last_tx. intros Hone Hl Ht.
  destruct (rev (txs b)) as [|t0 x] eqn:Er; [discriminate Hl|].
  injection Hl as Hl. subst t0.
  assert (Etx : txs b = rev x ++ [t]).
  { rewrite <- (rev_involutive (txs b)), Er. reflexivity. }
  rewrite find_hd_filter. rewrite Etx in Hone |- *.
  rewrite filter_app in Hone |- *. cbn [filter] in Hone |- *. rewrite Ht in Hone |- *.
  rewrite app_length in Hone. cbn [length] in Hone.
  rewrite (filter_nil_len0 is_reward (rev x)) by lia. reflexivity.
Qed.

Lemma age_loop_last_only_agrees : forall (l : list block),
  Forall reward_last l ->
  forall (target : string) (age : N), age_loop_last_only target l age = age_loop target l age.
Proof.
  induction l as [|b r IH]; intros HF target age; [reflexivity|].
  inversion HF as [|x y Hb Hr]; subst.
  destruct Hb as [Hone [t [Hl Ht]]].
  cbn [age_loop_last_only age_loop].
  rewrite Hl, Ht, (reward_last_find b t Hone Hl Ht).
  destruct (String.eqb (reward_addr t) target); [reflexivity|apply IH; exact Hr].
Qed.

(* why the change is invisible on this implementation's own blocks *)
Lemma age_of_last_only_agrees_reward_last (c : list block) :
  Forall reward_last c -> age_of_last_only c = age_of c.
Proof.
  intros HF. unfold age_of_last_only, age_of.
  assert (HR : Forall reward_last (rev c)).
  { apply Forall_forall. intros b Hb. apply in_rev in Hb.
    exact (proj1 (Forall_forall reward_last c) HF b Hb). }
  destruct (rev c) as [|l r]; [reflexivity|].
  inversion HR as [|x y Hx Hy]; subst.
  apply age_loop_last_only_agrees. exact Hy.
Qed.

(* --- the scenario: host [b0(A) b1(B) b2(A)], b3 = [reward(C); payment],
       candidates  .. b3 b4(C)  and  .. b3 b4'(B) --- *)
Definition lay_b0 : block := mk_blk [mk_reward "A"%string].
Definition lay_b1 : block := mk_blk [mk_reward "B"%string].
Definition lay_b2 : block := mk_blk [mk_reward "A"%string].
Definition lay_b3 : block := mk_blk [mk_reward "C"%string; mk_payment].
Definition lay_b3_last : block := mk_blk [mk_payment; mk_reward "C"%string].
Definition lay_b4 : block := mk_blk [mk_reward "C"%string].
Definition lay_b4' : block := mk_blk [mk_reward "B"%string].
Definition lay_X : list block := [lay_b0; lay_b1; lay_b2; lay_b3; lay_b4].
Definition lay_Y : list block := [lay_b0; lay_b1; lay_b2; lay_b3; lay_b4'].
(* X with the reward of b3 moved to the end, as this implementation would have laid it out *)
Definition lay_X_last : list block := [lay_b0; lay_b1; lay_b2; lay_b3_last; lay_b4].

Lemma lay_X_one_reward : Forall one_reward lay_X.
Proof. repeat constructor. Qed.
Lemma lay_Y_one_reward : Forall one_reward lay_Y.
Proof. repeat constructor. Qed.

Lemma lay_b3_layout : same_layout_free lay_b3 lay_b3_last.
Proof.
  unfold same_layout_free, lay_b3, lay_b3_last, mk_blk. cbn [b_prev b_added b_removed b_ts b_txs].
  repeat split. apply perm_swap.
Qed.

Lemma lay_X_layout : Forall2 same_layout_free lay_X lay_X_last.
Proof.
  unfold lay_X, lay_X_last.
  constructor; [apply same_layout_free_refl|].
  constructor; [apply same_layout_free_refl|].
  constructor; [apply same_layout_free_refl|].
  constructor; [apply lay_b3_layout|].
  constructor; [apply same_layout_free_refl|constructor].
Qed.

Lemma lay_X_differs : lay_X <> lay_X_last.
Proof. intros Hx. discriminate Hx. Qed.

(* age_of waits 1 for C (validated b3) and 3 for B (validated b1): the chain of B is preferred.
   Looking at last transactions only skips b3: C seems never to have validated (3), B waited 2:
   the chain of C is preferred. Both orders of iteration. And the last-only age is not a function
   of the block contents up to layout: moving the reward of b3 to the end changes it. *)
Lemma age_of_last_only_refuted :
  exists X Y X' : list block,
    Forall one_reward X /\ Forall one_reward Y /\ length X = length Y /\
    (age_of X < age_of Y)%N /\
    (age_of_last_only Y < age_of_last_only X)%N /\
    (forall pref, select pref [("n1"%string, X); ("n2"%string, Y)] = Some Y /\
                  select_last_only pref [("n1"%string, X); ("n2"%string, Y)] = Some X) /\
    Forall2 same_layout_free X X' /\
    age_of X = age_of X' /\
    age_of_last_only X <> age_of_last_only X'.
Proof.
  exists lay_X, lay_Y, lay_X_last.
  split; [exact lay_X_one_reward|]. split; [exact lay_Y_one_reward|].
  split; [reflexivity|].
  split; [vm_compute; reflexivity|].
  split; [vm_compute; reflexivity|].
  split.
  - intros pref. unfold select, select_last_only, order_cands. cbn [filter fst].
    destruct (String.eqb "n1" pref); destruct (String.eqb "n2" pref);
      split; vm_compute; reflexivity.
  - split; [exact lay_X_layout|].
    split; [apply age_of_layout_invariant; [exact lay_X_layout|exact lay_X_one_reward]|].
    vm_compute. discriminate.
Qed.

(* the hypotheses of the two invariance lemmas hold of concrete, different chains *)
Lemma lay_hypotheses_satisfiable :
  Forall2 same_layout_free lay_X lay_X_last /\ Forall one_reward lay_X /\ lay_X <> lay_X_last /\
  Forall2 cand_layout [("n1"%string, lay_X); ("n2"%string, lay_Y)]
                      [("n1"%string, lay_X_last); ("n2"%string, lay_Y)] /\
  cands_one_reward [("n1"%string, lay_X); ("n2"%string, lay_Y)].
Proof.
  split; [exact lay_X_layout|]. split; [exact lay_X_one_reward|]. split; [exact lay_X_differs|].
  split.
  - constructor; [split; [reflexivity|exact lay_X_layout]|].
    constructor; [|constructor]. split; [reflexivity|].
    cbn [snd]. repeat (constructor; [apply same_layout_free_refl|]). constructor.
  - constructor; [exact lay_X_one_reward|]. constructor; [exact lay_Y_one_reward|constructor].
Qed.
