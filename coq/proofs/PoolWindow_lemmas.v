(* PoolWindow_lemmas.v — the pool never holds a transaction dated before the tip, as long as
   no sync round replaces the chain (C11 / C16, the harness monitor on pooled transactions dated in the past). *)
From RV Require Import model.Base model.Ledger model.Registry model.Chain model.Sync model.Pool model.Reach.
From RV Require Import proofs.Sync_lemmas proofs.Reach_lemmas proofs.Honest_lemmas.
From Coq Require Import Lia ZArith NArith List.
Import ListNotations.
Local Open Scope Z_scope.

(* every pooled transaction is dated at or after the last block (0 for an empty chain) *)
Definition pool_window (n : node) : Prop :=
  Forall (fun t => last_block_ts (chain (n_c n)) <= t_ts t) (elems (n_pool n)).

Lemma pool_window_empty : pool_window node_empty.
Proof. unfold pool_window, node_empty. cbn. constructor. Qed.

Lemma pool_window_nil_pool : forall c, pool_window (mkNode c None).
Proof. intros c. unfold pool_window. cbn. constructor. Qed.

Section PoolWindow.
  Variable value_fn : N -> bool -> Z -> N.
  Variable addr_of : string -> string.
  Variable sig_ok : input -> bool.
  Variable H : block -> hash.
  Variable gen_id : slice input -> slice output -> Z -> string.
  Variable S : settings.
  Variable validator : string.

  Notation pool_add := (pool_add value_fn addr_of sig_ok S).
  Notation validate := (validate value_fn addr_of sig_ok H gen_id S validator).
  Notation step := (step value_fn addr_of sig_ok H gen_id S validator).

  (* shape of a successful admission: same chain state, the transaction appended, dated in the
     window [tip, tip + interval] of the CURRENT tip *)
  Lemma pool_add_ok_shape : forall n t n',
    pool_add n t = Ok n' ->
    n' = mkNode (n_c n) (sl_app (n_pool n) t) /\
    last_block_ts (chain (n_c n)) <> 0 /\
    last_block_ts (chain (n_c n)) <= t_ts t <= last_block_ts (chain (n_c n)) + s_interval S.
  Proof.
    intros n t n' Hadd. unfold Pool.pool_add in Hadd. cbv zeta in Hadd.
    destruct (last_block_ts (chain (n_c n)) =? 0) eqn:E0; [discriminate|].
    destruct (last_block_ts (chain (n_c n)) + s_interval S <? t_ts t) eqn:E1; [discriminate|].
    destruct (t_ts t <? last_block_ts (chain (n_c n))) eqn:E2; [discriminate|].
    destruct (mem_str (t_id t) (pool_ids n)) eqn:E3; [discriminate|].
    destruct (negb (verify_sigs sig_ok t)) eqn:E4; [discriminate|].
    destruct (update_utxos (ur (n_c n)) (last_block_txs (chain (n_c n)))
                           (last_block_ts (chain (n_c n)))) as [u1|e1] eqn:E5; [|discriminate].
    destruct (update_utxos u1 (elems (n_pool n))
                           (last_block_ts (chain (n_c n)) + s_interval S)) as [u2|e2] eqn:E6; [|discriminate].
    destruct (calc_fee value_fn addr_of (s_fee S) u2 t
                       (last_block_ts (chain (n_c n)) + s_interval S)) as [f|e3] eqn:E7; [|discriminate].
    destruct (update_utxos u2 [t] (last_block_ts (chain (n_c n)) + s_interval S)) as [u3|e4] eqn:E8;
      [|discriminate].
    inversion Hadd; subst n'.
    apply Z.eqb_neq in E0. apply Z.ltb_ge in E1. apply Z.ltb_ge in E2.
    split; [reflexivity|]. split; [exact E0|]. lia.
  Qed.

  Lemma pool_add_window : forall n t n',
    pool_window n -> pool_add n t = Ok n' -> pool_window n'.
  Proof.
    intros n t n' Hw Hadd.
    destruct (pool_add_ok_shape n t n' Hadd) as [Hn' [_ Hwin]]. subst n'.
    unfold pool_window in *. cbn [n_c n_pool]. unfold sl_app. cbn [elems].
    apply Forall_app. split; [exact Hw|]. constructor; [lia|constructor].
  Qed.

  (* a tick either leaves the node as it was (refused) or installs the new chain with an empty
     (nil) pool: everything that was pooled went into the block or was dropped *)
  Lemma validate_cases : forall n ts perm n' r,
    validate n ts perm = (n', r) -> n' = n \/ n_pool n' = None.
  Proof.
    intros n ts perm n' r Hv. unfold Pool.validate in Hv. cbv zeta in Hv.
    destruct (negb (last_block_ts (chain (n_c n)) =? 0) &&
              (last_block_ts (chain (n_c n)) =? ts)) eqn:E1.
    { inversion Hv. left. reflexivity. }
    destruct (negb (last_block_ts (chain (n_c n)) =? 0) &&
              (last_block_ts (chain (n_c n)) + s_interval S <? ts)) eqn:E2.
    { inversion Hv. left. reflexivity. }
    destruct (update_utxos (ur (n_c n)) (last_block_txs (chain (n_c n)))
                           (last_block_ts (chain (n_c n)))) as [u0|e1] eqn:E3.
    2:{ inversion Hv. left. reflexivity. }
    destruct (produce_loop value_fn addr_of sig_ok S
                (last_block_ts (chain (n_c n))) (last_block_ts (chain (n_c n)) + s_interval S) ts
                (permute perm (elems (n_pool n))) u0 [] []
                (if last_block_ts (chain (n_c n)) =? 0 then s_genesis S else 0%N))
      as [[[uu kept] dropped] reward] eqn:E4.
    destruct (add_block H (n_c n) ts
                (Some (kept ++ [reward_tx gen_id validator (last_block_ts (chain (n_c n)) =? 0) ts reward]))
                ((if last_block_ts (chain (n_c n)) =? 0 then [validator] else []) ++
                 yielding_addrs kept)) as [c'|e2] eqn:E5.
    2:{ inversion Hv. left. reflexivity. }
    inversion Hv. right. reflexivity.
  Qed.

  Lemma validate_window : forall n ts perm n' r,
    pool_window n -> validate n ts perm = (n', r) -> pool_window n'.
  Proof.
    intros n ts perm n' r Hw Hv.
    destruct (validate_cases n ts perm n' r Hv) as [Heq|Hnil].
    - subst n'. exact Hw.
    - unfold pool_window. rewrite Hnil. cbn. constructor.
  Qed.

  (* a produced tick leaves the pool nil *)
  Lemma validate_produced_pool_nil : forall n ts perm n' d,
    validate n ts perm = (n', Produced d) -> n_pool n' = None.
  Proof.
    intros n ts perm n' d Hv. unfold Pool.validate in Hv. cbv zeta in Hv.
    destruct (negb (last_block_ts (chain (n_c n)) =? 0) &&
              (last_block_ts (chain (n_c n)) =? ts)) eqn:E1; [inversion Hv|].
    destruct (negb (last_block_ts (chain (n_c n)) =? 0) &&
              (last_block_ts (chain (n_c n)) + s_interval S <? ts)) eqn:E2; [inversion Hv|].
    destruct (update_utxos (ur (n_c n)) (last_block_txs (chain (n_c n)))
                           (last_block_ts (chain (n_c n)))) as [u0|e1] eqn:E3; [|inversion Hv].
    destruct (produce_loop value_fn addr_of sig_ok S
                (last_block_ts (chain (n_c n))) (last_block_ts (chain (n_c n)) + s_interval S) ts
                (permute perm (elems (n_pool n))) u0 [] []
                (if last_block_ts (chain (n_c n)) =? 0 then s_genesis S else 0%N))
      as [[[uu kept] dropped] reward] eqn:E4.
    destruct (add_block H (n_c n) ts
                (Some (kept ++ [reward_tx gen_id validator (last_block_ts (chain (n_c n)) =? 0) ts reward]))
                ((if last_block_ts (chain (n_c n)) =? 0 then [validator] else []) ++
                 yielding_addrs kept)) as [c'|e2] eqn:E5; [|inversion Hv].
    inversion Hv. reflexivity.
  Qed.

  (* registry refresh: neither the pool nor the chain is touched *)
  Lemma regsync_untouched : forall n poh order,
    n_pool (step n (OpRegSync poh order)) = n_pool n /\
    chain (n_c (step n (OpRegSync poh order))) = chain (n_c n) /\
    ur (n_c (step n (OpRegSync poh order))) = ur (n_c n).
  Proof. intros n poh order. cbn. repeat split. Qed.

  Lemma regsync_window : forall n poh order,
    pool_window n -> pool_window (step n (OpRegSync poh order)).
  Proof. intros n poh order Hw. unfold pool_window in *. cbn. exact Hw. Qed.

  (* ---- histories without sync rounds ---- *)
  Definition is_sync (o : op) : bool :=
    match o with OpUpdate _ _ _ => true | _ => false end.
  Definition no_sync (ops : list op) : Prop := Forall (fun o => is_sync o = false) ops.

  Definition run (n : node) (ops : list op) : node := fold_left step ops n.

  Lemma step_window : forall n o,
    is_sync o = false -> pool_window n -> pool_window (step n o).
  Proof.
    intros n o Hns Hw. destruct o as [ts perm|t|now nbs pref|poh order].
    - cbn [Reach.step].
      destruct (validate n ts perm) as [n' r] eqn:Ev. cbn [fst].
      exact (validate_window n ts perm n' r Hw Ev).
    - cbn [Reach.step].
      destruct (pool_add n t) as [n'|e] eqn:Ea; [|exact Hw].
      exact (pool_add_window n t n' Hw Ea).
    - cbn in Hns. discriminate.
    - apply regsync_window. exact Hw.
  Qed.

  Theorem run_window : forall ops n,
    no_sync ops -> pool_window n -> pool_window (run n ops).
  Proof.
    induction ops as [|o ops IH]; intros n Hns Hw.
    - exact Hw.
    - inversion Hns as [|o' ops' Ho Hops]; subst.
      unfold run. cbn [fold_left]. apply IH; [exact Hops|].
      apply step_window; assumption.
  Qed.

  Theorem history_window : forall ops,
    no_sync ops -> pool_window (run node_empty ops).
  Proof. intros ops Hns. apply run_window; [exact Hns|exact pool_window_empty]. Qed.

  (* the same, over Reach.v's [reach] restricted to non-sync operations (op_ok is not needed) *)
  Inductive reach_ns : node -> Prop :=
  | reach_ns_init : reach_ns node_empty
  | reach_ns_step n o : reach_ns n -> is_sync o = false -> reach_ns (step n o).

  Theorem reach_ns_window : forall n, reach_ns n -> pool_window n.
  Proof.
    intros n Hr. induction Hr as [|n o Hr IH Hns].
    - exact pool_window_empty.
    - apply step_window; assumption.
  Qed.

  Lemma run_reach_ns : forall ops n, no_sync ops -> reach_ns n -> reach_ns (run n ops).
  Proof.
    induction ops as [|o ops IH]; intros n Hns Hr.
    - exact Hr.
    - inversion Hns as [|o' ops' Ho Hops]; subst.
      unfold run. cbn [fold_left]. apply IH; [exact Hops|].
      apply reach_ns_step; assumption.
  Qed.
End PoolWindow.

(* ------------------------------------------------------------------ *)
(* why sync rounds are excluded: a full concrete [update] example.     *)
(* Node s3 (HonestExample): blocks dated 10 and 20 by validator "V",   *)
(* transaction tC dated 25 accepted into the pool. A neighbor holds    *)
(* the same two blocks plus a block dated 30; the sync round adopts    *)
(* its chain (full re-sync), the pool is kept as it is: tC is now      *)
(* dated before the tip. The next tick (40) drops it as too old.       *)
(* ------------------------------------------------------------------ *)
Module PoolWindowExample.
  Import SyncExample ReachExample HonestExample.
  Local Open Scope string_scope.

  Local Notation STEP := (step vf ao so Hinj gid Sx "V").
  Local Notation RCH := (reach vf ao so Hinj gid Sx "V").
  Local Notation VAL := (validate vf ao so Hinj gid Sx "V").

  (* the neighbor: same history, one more (empty) tick *)
  Definition x3 : node := STEP s2 (OpValidate 30 []).
  Definition nbX : neighbor := mkNb "x:1" (RFail EFetch) (RBlocks (chain (n_c x3))).
  Definition opX : op := OpUpdate 40 [nbX] "".
  Definition s3x : node := STEP s3 opX.

  Lemma s3_reach : RCH s3.
  Proof. unfold s3. apply reach_step; [exact s2_reach|exact I]. Qed.

  Lemma s3_pool : elems (n_pool s3) = [tC] /\ last_block_ts (chain (n_c s3)) = 20%Z.
  Proof. vm_compute. split; reflexivity. Qed.

  Lemma s3_window : pool_window s3.
  Proof.
    unfold pool_window. destruct s3_pool as [Hp Ht]. rewrite Hp, Ht.
    constructor; [vm_compute; discriminate|constructor].
  Qed.

  Lemma opX_ok : op_ok Sx s3 opX.
  Proof. intros nb [E|[]] Et. subst nb. vm_compute in Et. discriminate Et. Qed.

  Lemma s3x_state :
    elems (n_pool s3x) = [tC] /\ last_block_ts (chain (n_c s3x)) = 30%Z /\
    chain (n_c s3x) = chain (n_c x3) /\ length (chain (n_c s3x)) = 3%nat.
  Proof. vm_compute. repeat split; reflexivity. Qed.

  Lemma s3x_not_window : ~ pool_window s3x.
  Proof.
    unfold pool_window. destruct s3x_state as [Hp [Ht _]]. rewrite Hp, Ht.
    intros Hf. inversion Hf as [|t l Hle Hr]; subst. vm_compute in Hle. apply Hle. reflexivity.
  Qed.

  (* sequentially legitimate: the next tick drops the transaction as too old *)
  Lemma s3x_next_tick_drops :
    exists n', VAL s3x 40 [0%nat] = (n', Produced [("tC", DOld)]) /\ n_pool n' = None.
  Proof. eexists. split; [vm_compute; reflexivity|reflexivity]. Qed.
End PoolWindowExample.

Theorem update_breaks_window_example :
  exists (value_fn : N -> bool -> Z -> N) (addr_of : string -> string) (sig_ok : input -> bool)
         (H : block -> hash) (gen_id : slice input -> slice output -> Z -> string)
         (St : settings) (validator : string) (n : node)
         (now : Z) (nbs : list neighbor) (pref : string) (t : tx),
    (0 < s_fee St)%N /\ (0 < s_interval St)%Z /\ (forall a b, H a = H b -> a = b) /\
    reach value_fn addr_of sig_ok H gen_id St validator n /\
    op_ok St n (OpUpdate now nbs pref) /\
    pool_window n /\
    elems (n_pool n) = [t] /\
    ~ pool_window (step value_fn addr_of sig_ok H gen_id St validator n (OpUpdate now nbs pref)) /\
    (* the next tick drops the stale transaction *)
    exists n', validate value_fn addr_of sig_ok H gen_id St validator
                 (step value_fn addr_of sig_ok H gen_id St validator n (OpUpdate now nbs pref))
                 (now) [0%nat] = (n', Produced [(t_id t, DOld)]) /\ n_pool n' = None.
Proof.
  exists SyncExample.vf, SyncExample.ao, SyncExample.so, ReachExample.Hinj, ReachExample.gid,
         SyncExample.Sx, "V"%string, HonestExample.s3, 40, [PoolWindowExample.nbX], EmptyString,
         HonestExample.tC.
  split; [reflexivity|]. split; [reflexivity|]. split; [exact ReachExample.Hinj_inj|].
  split; [exact PoolWindowExample.s3_reach|].
  split; [exact PoolWindowExample.opX_ok|].
  split; [exact PoolWindowExample.s3_window|].
  split; [exact (proj1 PoolWindowExample.s3_pool)|].
  split; [exact PoolWindowExample.s3x_not_window|].
  exact PoolWindowExample.s3x_next_tick_drops.
Qed.
