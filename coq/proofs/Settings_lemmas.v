(* Settings_lemmas.v — facts about the protocol settings decoder (model/Settings.v). *)
From Coq Require Import Lia ZArith NArith ZifyN ZifyBool.
From RV Require Import model.Base model.Json model.WireDec model.Settings proofs.Wire_lemmas.
Local Open Scope Z_scope.
Ltac Zify.zify_post_hook ::= Z.div_mod_to_equations.

Lemma wrap_i64_id (z : Z) :
  -9223372036854775808 <= z < 9223372036854775808 -> wrap_i64 z = z.
Proof.
  intros Hz. unfold wrap_i64.
  destruct (z mod 18446744073709551616 <? 9223372036854775808) eqn:E; lia.
Qed.

Lemma wrap_i64_range (z : Z) : -9223372036854775808 <= wrap_i64 z < 9223372036854775808.
Proof.
  unfold wrap_i64.
  destruct (z mod 18446744073709551616 <? 9223372036854775808) eqn:E; lia.
Qed.

(* the seconds that can be written without wrapping: |s| <= 9223372036 *)
Definition secs_ok (s : Z) : Prop := -9223372036 <= s <= 9223372036.

Lemma secs_ok_no_wrap (s : Z) : secs_ok s -> wrap_i64 (s * ns_per_s) = s * ns_per_s.
Proof. unfold secs_ok, ns_per_s. intros Hs. apply wrap_i64_id. lia. Qed.

(* The decoder never fails with anything but an encoding/json error, a value, or the one
   nil dereference on the text `null`. *)
Lemma decode_settings_panics_only_on_null (j : json) :
  decode_settings j = StPanic <-> j = JNull.
Proof.
  split.
  - destruct j as [| b | z | lit | s | l | fs]; cbn [decode_settings]; try discriminate; auto.
    destruct (bind _ _) as [p|e]; discriminate.
  - intros ->. reflexivity.
Qed.

(* inversion of a successful decoding: the ten fields *)
Lemma decode_settings_ok_inv (j : json) (p : psettings) :
  decode_settings j = StOk p ->
  exists fs l d g h b il f iv to vc,
    j = JObj fs /\
    dec_field (dec_uint u64_bound) "BlocksCountLimit" fs 0%N = Ok l /\
    dec_field (dec_uint 256) "CoinDigitsCount" fs 0%N = Ok d /\
    dec_field (dec_uint u64_bound) "GenesisAmount" fs 0%N = Ok g /\
    dec_field dec_float "HalfLifeInDays" fs (HLDays 0) = Ok h /\
    dec_field (dec_uint u64_bound) "IncomeBase" fs 0%N = Ok b /\
    dec_field (dec_uint u64_bound) "IncomeLimit" fs 0%N = Ok il /\
    dec_field (dec_uint u64_bound) "MinimalTransactionFee" fs 0%N = Ok f /\
    dec_field dec_i64 "ValidationIntervalInSeconds" fs 0%Z = Ok iv /\
    dec_field dec_i64 "ValidationTimeoutInSeconds" fs 0%Z = Ok to /\
    dec_field dec_i64 "VerificationsCountPerValidation" fs 0%Z = Ok vc /\
    p = mkPS l g h b il f d (wrap_i64 (to * ns_per_s)) (wrap_i64 (iv * ns_per_s)) (wrap_i64 (iv * ns_per_s)) vc.
Proof.
  destruct j as [| bb | z | lit | s | l0 | fs]; cbn [decode_settings]; try discriminate.
  unfold bind.
  destruct (dec_field (dec_uint u64_bound) "BlocksCountLimit" fs 0%N) as [l|e] eqn:E1; [|discriminate].
  destruct (dec_field (dec_uint 256) "CoinDigitsCount" fs 0%N) as [d|e] eqn:E2; [|discriminate].
  destruct (dec_field (dec_uint u64_bound) "GenesisAmount" fs 0%N) as [g|e] eqn:E3; [|discriminate].
  destruct (dec_field dec_float "HalfLifeInDays" fs (HLDays 0)) as [h|e] eqn:E4; [|discriminate].
  destruct (dec_field (dec_uint u64_bound) "IncomeBase" fs 0%N) as [b|e] eqn:E5; [|discriminate].
  destruct (dec_field (dec_uint u64_bound) "IncomeLimit" fs 0%N) as [il|e] eqn:E6; [|discriminate].
  destruct (dec_field (dec_uint u64_bound) "MinimalTransactionFee" fs 0%N) as [f|e] eqn:E7; [|discriminate].
  destruct (dec_field dec_i64 "ValidationIntervalInSeconds" fs 0%Z) as [iv|e] eqn:E8; [|discriminate].
  destruct (dec_field dec_i64 "ValidationTimeoutInSeconds" fs 0%Z) as [to|e] eqn:E9; [|discriminate].
  destruct (dec_field dec_i64 "VerificationsCountPerValidation" fs 0%Z) as [vc|e] eqn:E10; [|discriminate].
  intros Hp. injection Hp as <-.
  exists fs, l, d, g, h, b, il, f, iv, to, vc. repeat split; assumption || reflexivity.
Qed.

(* the period of the production engine IS the spacing of blocks; both are the seconds of the
   document times 10^9 (wrapped to int64) *)
Lemma decode_settings_ok_times (j : json) (p : psettings) :
  decode_settings j = StOk p ->
  ps_timer p = ps_timestamp p /\
  (exists iv : Z, i64_min <= iv < i64_max1 /\ ps_timestamp p = wrap_i64 (iv * ns_per_s)) /\
  (exists t : Z, i64_min <= t < i64_max1 /\ ps_timeout p = wrap_i64 (t * ns_per_s)).
Proof.
  intros Hd. apply decode_settings_ok_inv in Hd.
  destruct Hd as (fs & l & d & g & h & b & il & f & iv & to & vc & _ & _ & _ & _ & _ & _ & _ & _ & Hiv & Hto & _ & ->).
  cbn [ps_timer ps_timestamp ps_timeout]. split; [reflexivity|]. split.
  - exists iv. split; [exact (field_i64_ok _ _ _ Hiv)|reflexivity].
  - exists to. split; [exact (field_i64_ok _ _ _ Hto)|reflexivity].
Qed.

(* every integer the node reads from its settings is in the range of its Go type *)
Lemma decode_settings_ok_ranges (j : json) (p : psettings) :
  decode_settings j = StOk p ->
  (Z.of_N (ps_limit p) < u64_bound /\ Z.of_N (ps_genesis p) < u64_bound /\ Z.of_N (ps_base p) < u64_bound /\
   Z.of_N (ps_ilimit p) < u64_bound /\ Z.of_N (ps_fee p) < u64_bound /\ Z.of_N (ps_digits p) < 256) /\
  -9223372036854775808 <= ps_timestamp p < 9223372036854775808 /\
  -9223372036854775808 <= ps_timeout p < 9223372036854775808 /\
  in_i64 (ps_verifs p).
Proof.
  intros Hd. apply decode_settings_ok_inv in Hd.
  destruct Hd as (fs & l & d & g & h & b & il & f & iv & to & vc & _ & Hl & Hdg & Hg & _ & Hb & Hil & Hf & _ & _ & Hvc & ->).
  cbn [ps_limit ps_genesis ps_base ps_ilimit ps_fee ps_digits ps_timestamp ps_timeout ps_verifs].
  assert (Hu : 0 < u64_bound) by (unfold u64_bound; lia).
  repeat split; try (eapply field_uint_ok; [|eassumption]; (exact Hu || lia));
    try apply wrap_i64_range; try exact (proj1 (field_i64_ok _ _ _ Hvc)); try exact (proj2 (field_i64_ok _ _ _ Hvc)).
Qed.

(* a document whose interval is a positive number of seconds that fits gives the chain model a
   positive spacing that is a whole number of seconds: the hypothesis `0 < s_interval` of the C04/C08
   theorems is a statement about the settings file *)
Lemma decode_settings_interval (j : json) (p : psettings) (fs : list (string * json)) (iv : Z) :
  j = JObj fs -> decode_settings j = StOk p ->
  dec_field dec_i64 "ValidationIntervalInSeconds" fs 0%Z = Ok iv ->
  0 < iv <= 9223372036 ->
  s_interval (to_settings p) = iv * ns_per_s /\ 0 < s_interval (to_settings p) /\
  ps_timer p = s_interval (to_settings p).
Proof.
  intros -> Hd Hiv Hr. apply decode_settings_ok_inv in Hd.
  destruct Hd as (fs' & l & d & g & h & b & il & f & iv' & to & vc & Hj & _ & _ & _ & _ & _ & _ & _ & Hiv' & _ & _ & ->).
  injection Hj as <-. rewrite Hiv in Hiv'. injection Hiv' as <-.
  cbn [to_settings s_interval ps_timestamp ps_timer].
  rewrite secs_ok_no_wrap by (unfold secs_ok; lia).
  unfold ns_per_s. repeat split; lia.
Qed.

(* beyond 9223372036 s the product wraps: a document can make the spacing negative *)
Lemma decode_settings_interval_wrap_refuted :
  exists (j : json) (p : psettings),
    decode_settings j = StOk p /\ ps_timestamp p < 0 /\
    get_field "ValidationIntervalInSeconds" (match j with JObj fs => fs | _ => [] end) = Some (JNum 9223372037).
Proof.
  exists (JObj [("validationIntervalInSeconds"%string, JNum 9223372037)]).
  eexists. split; [vm_compute; reflexivity|]. split; vm_compute; reflexivity.
Qed.

(* units per coin: 10^digits whenever Go's conversion is defined *)
Lemma units_per_coin_spec (p : psettings) (u : N) :
  units_per_coin p = Some u -> (u = 10 ^ ps_digits p /\ u < 18446744073709551616)%N.
Proof.
  unfold units_per_coin. destruct (ps_digits p <=? 19)%N eqn:E; [|discriminate].
  intros Hu. injection Hu as <-. split; [reflexivity|].
  apply N.leb_le in E.
  apply N.le_lt_trans with (m := (10 ^ 19)%N).
  - apply N.pow_le_mono_r; lia.
  - vm_compute. reflexivity.
Qed.

(* key matching is case-insensitive and the last occurrence decides, as for every struct decoding *)
Example settings_doc_ex :
  decode_settings (JObj [("blocksCountLimit"%string, JNum 500); ("COINDIGITSCOUNT"%string, JNum 8);
                         ("genesisAmount"%string, JNum 10000000000000); ("halfLifeInDays"%string, JNumF "373.59"%string);
                         ("incomeBase"%string, JNum 50000000000); ("incomeLimit"%string, JNum 1000000000000);
                         ("minimalTransactionFee"%string, JNum 7); ("minimalTransactionFee"%string, JNum 1000);
                         ("validationIntervalInSeconds"%string, JNum 60); ("validationTimeoutInSeconds"%string, JNum 10);
                         ("verificationsCountPerValidation"%string, JNum 6); ("unknown"%string, JStr "x"%string)])
  = StOk (mkPS 500 10000000000000 (HLOther "373.59"%string) 50000000000 1000000000000 1000 8
              10000000000 60000000000 60000000000 6).
Proof. vm_compute. reflexivity. Qed.
