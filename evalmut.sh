#!/bin/bash
# evalmut.sh <prop> [check props...] — confirm a seeded change in its scratch worktree, then run
# our checks against it on /repo (applied, checked, reverted). Used during development only.
export GOFLAGS=-mod=mod GOPROXY=off GOSUMDB=off GOTOOLCHAIN=local
P=$1; shift
WT=/tmp/mut/$P; OUT=/tmp/mut/out_$P
CHECKS="${@:-$P}"
echo "== $P: confirming in $WT"
cd $WT || exit 1
demo=$(git status --porcelain | grep '^??' | awk '{print $2}' | head -5 | tr '\n' ' ')
echo "untracked (demo): $demo"
pkgs=""
for d in $demo; do if [ -d "$d" ]; then pkgs="$pkgs ./$d..."; else pkgs="$pkgs ./$(dirname $d)/"; fi; done
( go build ./... && go test -vet=off -count=1 $(go list ./... | grep -v /demo) 2>&1 | grep -v "no test files" | grep -vE "^ok" | head -20 ) > /tmp/mut/confirm_$P.log 2>&1
echo "with change, full suite (failures listed, demo expected):"; grep -E "^(FAIL|---)" /tmp/mut/confirm_$P.log | head -8
git apply -R $OUT/patch.diff || echo "cannot reverse patch"
echo "without change, demo packages:"; go test -vet=off -count=1 $pkgs 2>&1 | grep -v "no test files" | grep -E "^(ok|FAIL|---)" | head -5
git apply $OUT/patch.diff
echo "== running checks [$CHECKS] with the change applied to /repo"
cd /repo && git apply $OUT/patch.diff || { echo "patch does not apply"; exit 1; }
cd /verif
for c in $CHECKS; do python3 run.py $c quick 2>&1 | grep -E "VIOLATION|KNOWN|quick:" | cut -c1-260 | head -6; done
cd /repo && git checkout -- . && git status --short | head -3
