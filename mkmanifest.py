#!/usr/bin/env python3
"""Writes MANIFEST.json from checks.py (claimed properties) and NOT_APPLICABLE below."""
import json, os, sys
sys.path.insert(0, os.path.dirname(os.path.abspath(__file__)))
from checks import CHECKS
from manifest_text import TEXT, PENDING

props = [json.loads(l)["id"] for l in open("properties.jsonl")]
checks = []
for pid in props:
    if pid not in CHECKS or not os.path.exists("coq/props/%s.v" % pid):
        continue
    t = TEXT[pid]
    checks.append({
        "property_id": pid,
        "quick_cmd": "python3 run.py %s quick" % pid,
        "thorough_cmd": "python3 run.py %s thorough" % pid,
        "evidence_file": "/verif/evidence/%s.json" % pid,
        "replay_cmd_template": "python3 replay.py %s {path}" % pid,
        "engine": "coq-model+correspondence",
        "level_claimed": {"category": "proof", "text": t["level"], "design_ref": t["ref"]},
        "level_note": t["note"],
        "technique": t["technique"],
    })
m = {
    "version": 1,
    "setup_cmd": "./build.sh all",
    "hooks": {"guard": "verif", "enable": "no hook is needed: the harness drives exported constructors and interfaces of /repo (go build of /verif/harness with replace => /repo)",
              "baseline_off_cmd": "cd /repo && GOFLAGS=-mod=mod GOPROXY=off GOSUMDB=off GOTOOLCHAIN=local go test -vet=off -count=1 ./...",
              "source_commits": [], "add_only": True},
    "engines": [{"name": "coq-model+correspondence", "path": "/verif/coq, /verif/ocaml, /verif/harness, /verif/run.py",
                 "serves_properties": [c["property_id"] for c in checks],
                 "kind_free_text": "hand-written Gallina model with machine-checked theorems (Coq 8.16.1), extracted to OCaml and run against the real Go packages on generated operation histories; go/ast translators regenerate the table-shaped parts of the model"}],
    "checks": checks,
    "notes": "See DESIGN.md. Known findings are in KNOWN_FINDINGS.txt; repairs of genuine defects are the 'fix:' commits of /repo.",
    "not_applicable": [{"property_id": p, "reason": PENDING.get(p, "machinery for this property is not built yet")} for p in props if p not in [c["property_id"] for c in checks]],
}
json.dump(m, open("MANIFEST.json", "w"), indent=1)
print("claimed:", [c["property_id"] for c in checks])
