#!/bin/bash
# regress_lanes.sh <lanes> [ids...] — development tool, not a registered check: re-applies seeded changes in
# parallel lanes. Each lane works on private copies (/tmp/lane<k>/repo = a git worktree of /repo's HEAD,
# /tmp/lane<k>/verif = a copy of /verif with the repository path rewritten), so /repo itself stays untouched.
# Prints one line per change: caught / MISSED / PATCH DOES NOT APPLY. Lanes are removed at the end.
export GOFLAGS=-mod=mod GOPROXY=off GOSUMDB=off GOTOOLCHAIN=local
L=${1:-4}; shift
IDS="$@"; [ -z "$IDS" ] && IDS=$(ls /verif/seeded)
i=0; for n in $IDS; do k=$((i % L)); echo $n >> /tmp/lane_ids_$k.$$; i=$((i+1)); done
for k in $(seq 0 $((L-1))); do
  [ -f /tmp/lane_ids_$k.$$ ] || continue
  (
    D=/tmp/lane$k; rm -rf $D; mkdir -p $D
    git -C /repo worktree add --detach $D/repo HEAD >/dev/null 2>&1
    rsync -a --exclude .git --exclude work --exclude evidence /verif/ $D/verif/
    mkdir -p $D/verif/work $D/verif/evidence
    sed -i "s#/repo#$D/repo#g" $D/verif/build.sh $D/verif/harness/go.mod
    cd $D/verif
    for n in $(cat /tmp/lane_ids_$k.$$); do
      p=$(python3 -c "import json;print(json.load(open('seeded/$n/meta.json'))['property'])")
      if ! git -C $D/repo apply --check $PWD/seeded/$n/patch.diff 2>/dev/null; then echo "$n ($p): PATCH DOES NOT APPLY"; continue; fi
      git -C $D/repo apply $PWD/seeded/$n/patch.diff
      r=$(VERIF_JOBS=4 python3 run.py "$p" quick 2>&1 | grep -E "VIOLATION|quick:" | cut -c1-200 | head -3 | tr '\n' '|')
      git -C $D/repo checkout -- .
      if echo "$r" | grep -q VIOLATION; then echo "$n ($p): caught  $(echo "$r" | grep -o 'VIOLATION[^|]*' | head -1 | cut -c1-150)"; else echo "$n ($p): MISSED $r"; fi
    done
    cd /; git -C /repo worktree remove --force $D/repo; rm -rf $D /tmp/lane_ids_$k.$$
  ) &
done
wait
git -C /repo worktree prune
echo REGRESS-DONE
