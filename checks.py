# checks.py — per-property configuration of run.py (which theorems, which suites, which monitors)

# Operation kinds of the chain suite whose model functions each property's theorems use.
# A correspondence mismatch on another kind of operation does not concern the property.
SUITE_DEPENDS = {}

CHAIN_TB = [
    "modelled, not verified: encoding/json lexer and printer below the JSON tree, crypto/ecdsa, go-ethereum key/address functions, math/rand (the shuffle is recomputed with the same seed), Go map iteration order (an input of the model)",
]

def chain_suites(seed_off, quick=96, thorough=3200, extra=None):
    l = [{"suite": "chain", "mode": "mixed", "args": "-mode mixed", "n_quick": quick, "n_thorough": thorough, "shards": 8, "shards_thorough": 16, "seed_off": seed_off},
         # order-dependent pooled pairs (one order of which cannot be produced) in a third of the operations
         {"suite": "chain", "mode": "swap", "args": "-mode swap", "n_quick": 32, "n_thorough": 800, "shards": 4, "shards_thorough": 16, "seed_off": seed_off + 500}]
    return l + (extra or [])

CHAIN_RULE = ("chain suite: histories of 14+ operations on a real, fully wired node (pool + registries + blockchain) in a world of "
              "1-2 other real nodes and scripted peers: submissions (wallet-style and invalid in exactly one respect), production ticks "
              "(aligned, repeated, skipped, unaligned), sync rounds against honest, mutated (one rule broken at one height) and failing "
              "neighbors, registry refreshes; after every operation the whole observable state (block hashes, Utxos per address, "
              "registered and pending-removal addresses, pool) is compared with the extracted model. The node reads its protocol settings "
              "through the repository's own decoder (a settings document is built from the intended values; interval and timeout differ), "
              "spendable outputs are observed through the node's own utxos handler, honest neighbors answer through their own blocks handler, "
              "signature and address oracles are computed with crypto/ecdsa and go-ethereum directly. Generated situations include signatures "
              "of the same key replayed on another reference, leading zero-valued outputs, order-dependent pooled pairs and income-juggling triples (swap mode), pooled "
              "transactions that an adopted block makes unproducible (yield race), honest neighbors answering in indented JSON, candidates with a "
              "correctly signed second spend of an input, a wallet whose public key has a coordinate starting with a zero byte. A history is distinct by its "
              "sequence of (operation kind, outcome).")

CHECKS = {
    "C20": {
        "suites": [{"suite": "clock", "n_quick": 240, "n_thorough": 4000, "shards": 8},
                   {"suite": "settings", "n_quick": 800, "n_thorough": 40000, "shards": 4, "shards_thorough": 16, "seed_off": 20}],
        "also_props": ["C04_settings.v"],
        "monitor_props": ["C20"],
        "rule": "clock suite: Pulse cases (reading on / just before / just after / inside a period) and Start..Stop runs of the real Engine with scripted readings (stalls, exact half-way points, readings just before a boundary, a clock that does not advance) over occurrence/skip configurations; some pulses take their period from ValidationTimer() of settings that went through the repository's decoder (interval 2 s, timeout 3 s); the settings suite compares every getter of the protocol settings decoder with the model's decoder on generated documents (the period the engines get is the spacing the chain rules use: C04_settings_timer_is_spacing); a case is distinct by (kind, configuration, reading pattern)",
        "trusted_base": ["time.Ticker and goroutine scheduling (the model takes the served clock readings as its input)"],
        "assumptions": ["timestamps stay within int64 nanoseconds (years 1678-2262), as time.Time.UnixNano requires",
                        "Stop is observed from the engine's own goroutine; the unsynchronised flag itself is a C16 item"],
    },
    "C11": {
        "suites": chain_suites(11),
        "monitor_props": ["C11"],
        "mismatch_kinds": ["admit", "validate"],
        "rule": CHAIN_RULE,
        "trusted_base": CHAIN_TB,
        "assumptions": ["minimal fee >= 1 (with a zero minimal fee a no-input transaction could be pooled and a produced block would carry two rewards)",
                        "production ticks are the aligned ones the engine delivers (C20); unaligned ticks are exercised for the correspondence only",
                        "reward = fees collected holds in exact arithmetic when genesis + fees < 2^64; the accumulated reward is never larger than the exact fees"],
    },
    "C06": {
        "suites": chain_suites(6, quick=64, extra=[{"suite": "forks", "n_quick": 240, "n_thorough": 8000, "shards": 8, "shards_thorough": 16}]),
        "monitor_props": ["C06"],
        "mismatch_kinds": ["update"],
        "rule": CHAIN_RULE + " The forks suite adds rounds with 1-8 neighbors serving, from four real producers that share a prefix of 1-4 blocks with the host, chains equal to, shorter than, longer than and diverging from the host's (several neighbors on one branch, so the branch-majority and longest filters both remove candidates), plus mutated and failing neighbors. For C06 the compared projection of a sync round is: kept/replaced, the set of neighbors whose answer passed verification, and the adopted chain (the model is run once per possible tie-break and must match for one of them). Branch blocks carry wallet transactions; an honest neighbor's answer may be set aside as a fork or as too short, never for its content; the isolation scenario (chains of 4-13 and 34-40 blocks; an in-sync or one-ahead neighbor, then a competing tip or the host's tip with a doubled transaction) requires the held chain to be, block for block, the old chain or what an accepted neighbor serves; some rounds are stamped by a real Engine with a neighbor one tick ahead.",
        "trusted_base": CHAIN_TB,
        "assumptions": ["ties in waiting time resolve by Go's map iteration order: the model's pref argument, universally quantified in the theorems",
                        "no neighbor target is the literal string \"host\" (real targets are ip:port)"],
    },
    "C08": {
        "suites": [{"suite": "catchup", "n_quick": 96, "n_thorough": 1600, "shards": 8, "shards_thorough": 16}],
        "also_props": ["C20_wiring.v"],
        "monitor_props": ["C08"],
        "mismatch_kinds": ["update", "validate", "page"],
        "rule": "catchup suite: a real serving node with a chain of 2..25 blocks built from wallet-style transactions, page sizes 3..12, and a real catching-up node starting from a one-block prefix, a longer prefix or a short private chain; sync rounds are counted against 1 + ceil(|C|/(page-1)); Blocks(h) is swept over h in [0, n+2] and at 2^63, 2^64-1 and around 2^64-page, and compared with the model's blocks_page; distinct by (start kind, page size, chain length, start length)",
        "trusted_base": CHAIN_TB,
        "assumptions": ["page size + chain length <= 2^64 (a page size near 2^64 makes h+limit wrap and the slice expression panic: a setting, not an input)"],
    },
    "C09": {
        "suites": [{"suite": "decay", "n_quick": 400, "n_thorough": 6000, "shards": 4, "shards_thorough": 16, "eval": "python3 decay_eval.py {cases} {work} 4"},
                   # the timestamps outputs are valued from, as the node records them (chain histories)
                   {"suite": "chain", "mode": "mixed", "args": "-mode mixed", "n_quick": 32, "n_thorough": 800, "shards": 4, "shards_thorough": 16, "seed_off": 9},
                   # what a wallet sees: balances of income-only holdings through the access node
                   {"suite": "views", "n_quick": 120, "n_thorough": 3000, "shards": 4, "shards_thorough": 16, "seed_off": 9}],
        "monitor_props": ["C09"],
        "rule": "decay suite: Utxo.Value at lattice points (y in 0, 1, base, limit-1, limit, limit+1, 2*limit, powers of two up to 2^53, random) x (1 ns, h/2, h, h+1, 20h, random) x six settings; each point is enclosed by Coq's interval tactic (120 bits) on the real model G/F and Go's uint64 must lie within the property's slack of the enclosure; the half-life reaches Utxo.Value through the real decoder of the protocol settings (halfLifeInDays); the views suite shows balances of income-only holdings through the access node; distinct by (yielding, y kind, x kind, setting)",
        "trusted_base": ["Coq Reals axioms (ClassicalDedekindReals.sig_not_dec, sig_forall_dec, FunctionalExtensionality.functional_extensionality_dep, Classical_Prop.classic); the interval tactic additionally relies on the primitive integer/float axioms of the standard library (Uint63, PrimFloat, FloatAxioms) for the numeric Example and for the per-point enclosures",
                         "binary64 evaluation through Go's math.Exp/Log/Pow is not modelled: it is validated pointwise against the enclosures, not proved"],
        "assumptions": ["integer settings with 1 <= base < limit (then 0 < k1; for real-valued settings k1 > 0 needs (2B)^2 < L^3, see C09_k1_pos_real_refuted)",
                        "the floating-point slack clause of the property is checked pointwise, not proved"],
    },
    "C17": {
        "suites": [{"suite": "net", "n_quick": 400, "n_thorough": 20000, "shards": 8, "shards_thorough": 16}],
        "monitor_props": ["C17"],
        "rule": "net suite: the real Neighborhood with a scripted SenderCreator over sequences of AddTargets (valid, malformed, foreign-network, self, duplicates), Incentive and Synchronize rounds with maximum sizes 0..8, seeds, unreachable subsets and (one case in six) DNS names that resolve to another peer or to the host itself; every round's selected set must be an admissible result of the model's selection (membership, since the cut bucket is shuffled) and every fan-out list must equal the model's; a fifth of the histories have an IPv6 host; scored peers are announced again; distinct by (max, seeds, aliasing, operation pattern)",
        "trusted_base": ["net.SplitHostPort and DNS/dial (SenderCreator) are oracles: tables recorded from the run", "math/rand shuffle of the cut bucket: the model's perm input; the check is membership in the admissible set"],
        "assumptions": ["maximum outbound count >= 0 (a negative configured maximum panics at neighborhood.go:123)",
                        "distinct / never-self are about sender targets and hold when target resolution is injective and does not map to the host (C17_alias_refuted shows the aliasing case: known finding)"],
    },
    "C18": {
        "suites": [{"suite": "wallet", "n_quick": 240, "n_thorough": 6000, "shards": 8, "shards_thorough": 16}],
        "also_props": ["C20_wiring.v"],
        "monitor_props": ["C18"],
        "rule": "wallet suite: the real InfoController over httptest, its Sender backed by a real validator whose wallet holds 1..300 outputs (equal values, zero-valued, yielding or not); amounts 0, balance-fee, just above, one output exactly, beyond, random; both consolidation modes; clock anywhere in the slot; the answer is compared with the model's tx_info and the transaction built from it is submitted to the real pool and a block is produced; up to three payments in a row on one validator (a third of them to the wallet itself), clock readings on the first and last instant of a slot, the validator reached through its real handlers, the set-up payment itself checked; distinct by (amount kind, mode, holdings, status)",
        "trusted_base": ["Utxo.Value (binary64) is an oracle: the holdings' values at the next block time are recorded from the run", "net/http, gin and strconv.Atoi are outside the model"],
        "assumptions": ["no uint64 wrap: total holdings < 2^64 and amount + fee < 2^64 (a negative value= parameter wraps: noted in DESIGN.md)"],
    },
    "C19": {
        "suites": [{"suite": "views", "n_quick": 240, "n_thorough": 6000, "shards": 8, "shards_thorough": 16}],
        "also_props": ["C20_wiring.v"],
        "monitor_props": ["C19"],
        "rule": "views suite: the real AmountController and ProgressController over httptest, their Sender backed by a live validator walked through a transaction's life (unknown, pooled, in the tip block, confirmed, spent again) or failing at one chosen step (utxos, first-block timestamp, blocks, pool, undecodable body); the validator answers through its real handlers and, in some cases, really re-syncs onto an older chain between two requests; income-only holdings and balances asked for much later; distinct by (stage, injected fault, outcome)",
        "trusted_base": ["the final float64 division of the balance and JSON formatting are recomputed by the harness with math/big, not modelled"],
        "assumptions": ["the balance is the uint64 (wrapping) sum; equal to the exact sum below 2^64"],
    },
    "C01": {
        "suites": chain_suites(1),
        "monitor_props": ["C01"],
        "mismatch_kinds": ["admit", "validate", "update"],
        "rule": CHAIN_RULE + " For C01 the fault stream includes output multisets summing to 2^64+k and to 2^64-1, fees one below and exactly the minimum, rewards one above the fees; the monitor recomputes every transaction's and block's bound with big integers from the served chain.",
        "trusted_base": CHAIN_TB,
        "assumptions": ["Utxo.Value is an oracle here (C09 treats the function)", "minimal fee >= 1",
                        "production ticks are aligned (C20): with an unaligned tick the producer values same-block outputs at a negative age"],
    },
    "C03": {
        "suites": chain_suites(3),
        "monitor_props": ["C03"],
        "mismatch_kinds": ["admit", "validate", "update"],
        "rule": CHAIN_RULE + " For C03 the fault stream corrupts exactly one field of a valid input: another wallet's key, another reference, altered s, r = 0, s = 0, r >= n, upper-case hex (must be accepted); on admission, in production and in candidate blocks.",
        "trusted_base": CHAIN_TB + ["ECDSA verification itself (zero / over-range halves, malleability) is inside the sig_ok oracle: the theorems show every path calls the check on the right message and key; the answers of ecdsa.Verify are recorded, not proved"],
        "assumptions": ["sig_ok and addr_of are oracles (recorded per input from the run)"],
    },
    "C04": {
        "suites": chain_suites(4, extra=[{"suite": "forks", "n_quick": 96, "n_thorough": 3000, "shards": 8, "shards_thorough": 16, "seed_off": 4},
                                         # the spacing of blocks and the production period come out of one settings document
                                         {"suite": "settings", "n_quick": 800, "n_thorough": 40000, "shards": 4, "shards_thorough": 16, "seed_off": 4}]),
        "also_props": ["C20_wiring.v"],
        "monitor_props": ["C04"],
        "mismatch_kinds": ["validate", "update"],
        "rule": CHAIN_RULE + " For C04 the mutated neighbors break one rule at one height: timestamp shifted, tail in the future, two rewards, no reward, transaction dated after its block or before the previous one, broken link, truncated, first block dropped; production ticks are aligned, repeated, skipped and (for the correspondence only) unaligned or dated before the tip. The forks suite adds multi-neighbor rounds (isolation scenario) and rounds stamped by a real verification Engine while a neighbor already serves the next tick's block: the held tip is never dated after the node's clock. The settings suite sends protocol settings documents (every key spelling encoding/json accepts, duplicated and absent keys, nulls, boundary and wrapping numbers, a malformed stream) through the repository's decoder and the model's (Settings.v): every getter must agree, and the production period must equal the block spacing.",
        "trusted_base": CHAIN_TB,
        "assumptions": ["minimal fee >= 1, validation interval >= 0, SHA-256 collision-free on the blocks involved (blocks whose hash equals the host's block are not re-verified)",
                        "no tip is dated 0 (the code uses timestamp 0 as 'empty chain': C04_chain_ok_refuted shows the edge; real timestamps are Unix nanoseconds)",
                        "production ticks are the aligned ones the engine delivers (C20); the first block of a fully re-synced chain is not verified (exempt in the property)"],
    },
    "C07": {
        "suites": chain_suites(7, extra=[{"suite": "catchup", "n_quick": 16, "n_thorough": 400, "shards": 4, "shards_thorough": 16}]),
        "monitor_props": ["C07"],
        "mismatch_kinds": ["validate", "update", "admit", "regsync"],
        "rule": CHAIN_RULE + " For C07 the monitor replays the node's own served chain minus its last block on fresh registries after every operation and compares Utxos(a) and IsRegistered(a) for the address universe; incremental adoption, tip swaps and full re-syncs (also onto a different first block) all occur.",
        "trusted_base": CHAIN_TB,
        "assumptions": ["operation granularity: concurrency inside an operation is C16's business", "no neighbor target is literally \"host\""],
    },
    "C12": {
        "suites": chain_suites(12, extra=[{"suite": "forks", "n_quick": 160, "n_thorough": 4000, "shards": 8, "shards_thorough": 16},
                                          # one operation placed inside another: the served chain stays hash-linked at every moment
                                          {"suite": "place", "n_quick": 42, "n_thorough": 840, "shards": 4, "shards_thorough": 16, "eval": "true", "seed_off": 12}]),
        "monitor_props": ["C12"],
        "mismatch_kinds": ["validate", "update", "regsync"],
        "rule": CHAIN_RULE + " For C12 every block hash observed at a height is re-observed after every later operation (production, registry refresh, candidate verification that is later rejected, queries) as long as the chain below it was not replaced by a sync round; registry refreshes mark any subset of addresses invalid so that blocks carry 0, 1, 2 or more pending removals. The forks suite (isolation scenario over long chains) and the place suite (one operation inside another) keep the served chain hash-linked.",
        "trusted_base": CHAIN_TB + ["Go slice aliasing is not modelled: the model's values are immutable, so an in-place edit of a chained block shows up as a correspondence difference on the block hash (that is how the pinned tree's defect D2 appears)"],
        "assumptions": ["'identical content and hash' is definitional for immutable model values; the theorem content is which heights may change and that the chain is hash-linked in every reachable state"],
    },
    "C02": {
        "suites": chain_suites(2, extra=[{"suite": "forks", "n_quick": 160, "n_thorough": 4000, "shards": 8, "shards_thorough": 16}]),
        "also_props": ["C16_atomic.v"],
        "lockset_query": True,
        "monitor_props": ["C02"],
        "mismatch_kinds": ["admit", "validate", "update"],
        "rule": CHAIN_RULE + " For C02 the generator submits conflicting spends in every position: the same output twice in one transaction, in two pooled transactions, in the last block and the pool, in adjacent and distant blocks, across a re-sync, and resubmissions; the monitor recomputes the consumed-reference multiset of every served chain.",
        "trusted_base": CHAIN_TB,
        "assumptions": ["transaction ids along a chain are pairwise distinct (ids are content hashes; the decoder checks them: C15). Without that the registry's id-entry deletion allows a re-recorded id to be spent again: C02_id_reuse_refuted",
                        "'created in an earlier block' is proved as 'spendable before the block or created earlier in the same block': the producer does keep same-block spends (known finding)"],
    },
    "C10": {
        "suites": chain_suites(10),
        "monitor_props": ["C10"],
        "mismatch_kinds": ["admit", "validate", "update", "regsync"],
        "rule": CHAIN_RULE + " For C10 the generator creates yielding outputs in every pattern (same address twice in one transaction, one block, adjacent blocks; spent and recreated; to removed addresses) and drives registry refreshes marking any subset invalid; the monitor counts unspent yielding outputs per address after every block of every served chain.",
        "trusted_base": CHAIN_TB + ["proof-of-humanity answers are scripted (HumansManager is an oracle)"],
        "assumptions": ["the verifier consults the registry state it has at that point of a batch (one block behind inside a batch: see the C05 findings)",
                        "a reward transaction's own yielding output is not subject to the registration test (the property speaks of ordinary transactions)"],
    },
    "C13": {
        "suites": [{"suite": "faults", "n_quick": 160, "n_thorough": 1200, "shards": 8, "shards_thorough": 16},
                   # several neighbors in one round: what a refused neighbor offered must not reach the chain through another candidate
                   {"suite": "forks", "n_quick": 64, "n_thorough": 1600, "shards": 8, "shards_thorough": 16, "seed_off": 13}],
        "also_props": ["C20_wiring.v"],
        "monitor_props": ["C13"],
        "mismatch_kinds": ["update", "validate", "admit", "regsync"],
        "rule": "faults suite: host chains of 0, 1, 2, 3, 4, 6 blocks (with pending removals), 5-7 consecutive sync rounds, each with 1-8 neighbors drawn from: error, silence beyond the timeout, garbage, empty answer, a chain with one rule broken at one position (16 kinds), answers that change between the incremental and the full request, honest; every round is compared with the model; monitors: a kept round leaves the complete state digest unchanged, the round returns within 2*n*timeout + 1 s, runtime.NumGoroutine returns to its baseline; distinct by (host length, fault assignment, outcome)",
        "trusted_base": CHAIN_TB + ["goroutine scheduling and wall-clock time are runtime behaviour: the fetch protocol is proved as a transition system, the time bound and the goroutine count are measured on the implementation"],
        "assumptions": ["a neighbor whose GetBlocks call itself never returns keeps its fetch goroutine alive until the transport's own timeout (fetch_never_quiescent): the peer client has a connection timeout"],
    },
    "C16": {
        "pre_cmds": ["./build.sh race"],
        "suites": [{"suite": "race", "bin": "./bin/rvharness_race", "race": True, "n_quick": 24, "n_thorough": 400, "shards": 8, "shards_thorough": 16,
                    "eval": "true"},
                   {"suite": "place", "n_quick": 42, "n_thorough": 840, "shards": 4, "shards_thorough": 16, "eval": "true"},
                   {"suite": "sweep", "n_quick": 512, "n_thorough": 16384, "shards": 8, "shards_thorough": 16},
                   # two wallets posting to one access node at the same moment
                   {"suite": "wallet", "n_quick": 16, "n_thorough": 64, "shards": 2, "shards_thorough": 4, "seed_off": 16}],
        "monitor_props": ["C16"],
        "lockset_query": True,
        "rule": "race suite (binary built with -race): on one real node, two goroutines submit transactions (including one transaction three times), one issues queries (pool, blocks, outputs, timestamps, registration), one produces blocks, one runs sync rounds against a second real node that produces competing blocks, one refreshes the registry, for 40-80 ms; at quiescence the chain monitors (C01-C04, C07, C10) run and admitted transactions are counted in chain + pool; any race-detector report is a violation. The place suite puts one operation inside another deterministically, by wrapping the injected collaborators: seven placements: a submission while a production tick is at its AddBlock call (the admitted transaction must be found exactly once in chain + pool); a production tick, and two production ticks, while a sync round is between verification and commit; a sync round while AddBlock consults the registry; a sync round after a production tick has read the tip and before it builds its block; the same with a pooled transaction that the adopted chain has already confirmed, so that the tick rejects it and is then refused by AddBlock ; a freshly started node adopting an older chain with the same tip time inside its tick (each time the quiescent state must satisfy C01-C07 and the pool must hold submitted transactions only, none twice, no reward). The sweep suite runs two operations of one real node (production tick, submission, sync round, registry refresh; eight ordered pairs) in two goroutines under a scheduler that decides at every collaborator call which of the two goes on (schedules of up to five segments; a thread waiting for a lock held by the paused one is detected and the other let on), in four worlds (a neighbor that extends the host's chain, a competing tip of equal height, a freshly started node facing an older chain, a deeper and longer fork) with pooled transactions that the neighbor's chain already confirms or that spend the host's own tip; the quiescent state is judged by the monitors, and every run whose switches fall on the call boundaries of the Gallina machine model/Interleave.v (V1..V4, A1..A4, U1..U3) is replayed on that machine: results of the operations and the final state (digest) must agree. The static part regenerates the access table and lock-order edges from the source on every run; distinct by (blocks, submissions, pool size)",
        "trusted_base": ["tools/genlockset (syntactic go/ast translator; rules in DESIGN.md 3.13: receiver-field accesses, locks held by statement order, defer-unlock holds to the end, inlining of calls on the receiver and on collaborator fields, goroutines run without the caller's locks, element stores through a local alias count as writes)",
                         "the Go memory model is not formalised: the theorem is a lock discipline over an abstract reader/writer mutex semantics; the race detector and stress runs are search tools",
                         "the scheduler of the sweep suite (harness/suite_sweep.go): decorators around the injected interfaces, goroutine identification through runtime.Stack, an 80 ms timeout to detect a thread waiting for a lock (a call that waited is placed where it returned)"],
        "assumptions": ["entry points = exported methods of Blockchain, TransactionsPool, UtxosRegistry, AddressesRegistry, Neighborhood, Engine; each engine-driven method does not overlap with itself",
                        "operation-level interleavings are proved linearisable at the granularity of collaborator calls (model/Interleave.v, C16_interleave.v) for schedules in which no sync round changes the chain state while a tick or a submission is in flight; outside that condition the statement is refuted (known finding stale-tick-view); schedules finer than the machine (a call taking effect inside AddBlock or inside the commit) and registry refreshes are judged by the monitors only: partial"],
    },
    "C15": {
        "suites": [{"suite": "wire", "n_quick": 96, "n_thorough": 2400, "shards": 8, "shards_thorough": 16},
                   # whole lives of a node: what it serves for an id stays the content the id was computed from
                   {"suite": "chain", "mode": "mixed", "args": "-mode mixed", "n_quick": 32, "n_thorough": 800, "shards": 4, "shards_thorough": 16, "seed_off": 15},
                   # bytes -> tree: the model's parser against encoding/json's scanner, number grammar and unquoting
                   {"suite": "lex", "n_quick": 40, "n_thorough": 1600, "shards": 4, "shards_thorough": 16, "seed_off": 15}],
        "monitor_props": ["C15"],
        "rule": "wire suite: (a) every block of real chains (real transactions, registry removals) served by a node is compared byte for byte with the model's printer and hash for hash / id for id with the model's SHA-256; (b) JSON text is fed to the real decoders and to the model's decoders (through a JSON reader in the OCaml glue): synthetic transactions with empty/absent lists, extreme integers, non-ASCII / HTML-special / control characters in addresses, upper-case hex, leading-zero signatures, unknown, reordered, case-varied and duplicated keys, wrong ids; block lists mutated at every schema position with every fault kind; accept/reject and the re-encoded bytes must agree; (c) monitors: decode/encode stability, same id and hash after a round trip, 'has a reward' iff no input; (d) every eighth case serves the node through the real Host over loopback TCP (golang-p2p) and asks all seven endpoints through the real client. The endpoint binding table is regenerated from source (tools/genendpoints) and checked by C15_endpoints. One blocks answer is held while the next requests are answered: its bytes must not change. distinct by JSON text",
        "trusted_base": ["bytes <-> JSON tree: encoding/json's scanner and unquoting are modelled by parse_json (model/JsonParse.v; parse_json (render j) = Some j is proved) and tied to Go by the lex suite and by every decoder case; Go's replacement of invalid UTF-8 by U+FFFD and its nesting limit of 10000 are not represented (texts are valid UTF-8)", "crypto.UnmarshalPubkey (on-curve test) is an oracle", "golang-p2p framing (gob, RSA/AES handshake) is exercised end to end, not modelled",
                         "tools/genendpoints (syntactic go/ast translator of node.go, host.go, neighbor.go)"],
        "assumptions": ["'different fields => different ids' is modulo a collision of SHA-256 (C15_id_binds states the disjunction)", "strings are valid UTF-8 (Go's decoder guarantees it for decoded values)"],
    },
    "C05": {
        "suites": [{"suite": "accept", "n_quick": 160, "n_thorough": 4000, "shards": 8, "shards_thorough": 16}],
        "also_props": ["C20_wiring.v"],
        "monitor_props": ["C05"],
        "mismatch_kinds": ["update", "validate", "admit", "regsync"],
        "rule": "accept suite: a real producer whose pool holds anything an honest pool may hold (spends of confirmed, last-block and same-pool outputs, boundary fees and dates, yielding outputs to registered, new and just-removed addresses) produces a block; three real peers that hold the same chain receive it as an extension of their tip, as a competitor to their own tip produced on the same tick, and in a full re-sync from an unrelated short chain; the monitor requires the producer's answer to pass verification in each context; the peers' whole lives are recorded and compared with the model; one case in sixteen takes the production tick from a real Engine whose period is ValidationTimer() of the decoded settings (interval 2 s, timeout 1 s); distinct by (context, spend kind, outcome, pool contents)",
        "trusted_base": CHAIN_TB,
        "assumptions": ["'accepted' = the candidate passes verification (whether it is then selected is C06's tie-break)",
                        "two situations are known findings: a block spending an output of the immediately preceding block (rejected as an extension and in a re-sync) and a block in which a transaction spends an output of an earlier transaction of the same block (rejected everywhere)"],
    },
    "C14": {
        "suites": [{"suite": "crash", "n_quick": 48, "n_thorough": 1600, "shards": 8, "shards_thorough": 16},
                   {"suite": "chain", "mode": "mixed", "args": "-mode mixed", "n_quick": 64, "n_thorough": 1600, "shards": 8, "shards_thorough": 16, "seed_off": 14},
                   {"suite": "faults", "n_quick": 16, "n_thorough": 400, "shards": 4, "shards_thorough": 16, "seed_off": 14},
                   # peer-supplied targets (announced, or named as broadcaster of a transaction) reach the refresh loop of the neighborhood
                   {"suite": "net", "n_quick": 200, "n_thorough": 8000, "shards": 4, "shards_thorough": 16, "seed_off": 14},
                   # bytes -> tree: every text is first judged by the lexer the model's parse_json stands for
                   {"suite": "lex", "n_quick": 40, "n_thorough": 1600, "shards": 4, "shards_thorough": 16, "seed_off": 14}],
        "also_props": ["C16.v"],
        "lockset_query": True,
        "monitor_props": ["C14"],
        "rule": "crash suite: a valid transaction request, a valid chain (as a neighbor's sync answer) and a validator's utxo answer are mutated at every schema position with 14 fault kinds (null, absent, empty list/object, wrong types, negative, 2^64, 2^64-1, -2^63, float, list of null, nested null), ids recomputed in 4 cases of 5 so the message passes integrity checks, and fed to the real validator handlers, to a sync round, and to the access-node controllers (as validator answers and as request bodies); after each message the operations that later touch stored data run (production, admission, queries); fixed probes null, {}, [], \"\", 0 on every endpoint. The chain and faults suites add multi-step histories (re-spends of partially spent transactions, candidates broken at any position): a panic anywhere ends the harness process and is reported with the input being tried; extreme block heights (2^64-1, 2^63, ...) at the blocks endpoint; the net suite feeds malformed announced and broadcaster targets to the refresh loop of the neighborhood. distinct by (target, position, fault kind)",
        "trusted_base": ["Go's JSON lexer, golang-p2p framing and gin are not modelled; a panic inside gin-served handlers would be recovered in production (the harness calls the controllers directly and reports it)"],
        "assumptions": ["the blocks page size is a sane setting (page + chain length <= 2^64): otherwise Blocks panics on its slice bounds (C08)"],
    },
}
