# checks.py — per-property configuration of run.py (which theorems, which suites, which monitors)

# Operation kinds of the chain suite whose model functions each property's theorems use.
# A correspondence mismatch on another kind of operation does not concern the property.
SUITE_DEPENDS = {}

CHAIN_TB = [
    "modelled, not verified: encoding/json lexer and printer below the JSON tree, crypto/ecdsa, go-ethereum key/address functions, math/rand (the shuffle is recomputed with the same seed), Go map iteration order (an input of the model)",
]

CHECKS = {
    "C20": {
        "suites": [{"suite": "clock", "n_quick": 240, "n_thorough": 4000, "shards": 8}],
        "monitor_props": ["C20"],
        "rule": "clock suite: Pulse cases (reading on / just before / just after / inside a period) and Start..Stop runs of the real Engine with scripted readings (stalls, exact half-way points, readings just before a boundary, a clock that does not advance) over occurrence/skip configurations; a case is distinct by (kind, configuration, reading pattern)",
        "trusted_base": ["time.Ticker and goroutine scheduling (the model takes the served clock readings as its input)"],
        "assumptions": ["timestamps stay within int64 nanoseconds (years 1678-2262), as time.Time.UnixNano requires",
                        "Stop is observed from the engine's own goroutine; the unsynchronised flag itself is a C16 item"],
    },
}
