(* driver.ml — trusted glue: runs the extracted model on the cases the Go harness wrote and
   compares its observations with what the implementation did.
   usage: modelrun <casefile>     prints one line per case:  OK <id> <ops>  |  MISMATCH <id> <op#> <what> *)
module ZA = Z

open Model
open Sx

exception Oracle_miss of ostring

let md5 (s : ostring) : ostring = Digest.to_hex (Digest.string s)

(* ------------------------------------------------------------------ clock *)
let show_z (x : Model.z) = ZA.to_string (z_of_cz x)
let show_n (x : n) = ZA.to_string (z_of_n x)

let run_clock (id : ostring) (body : Sx.t list) : ostring =
  match body with
  | [A "pulse"; timer; now; got] ->
    let m = show_z (pulse_stamp (cz_of_sx timer) (cz_of_sx now)) in
    if m = str got then "OK " ^ id ^ " 1" else Printf.sprintf "MISMATCH %s 0 pulse model=%s go=%s" id m (str got)
  | [A "engine"; timer; occ; L readings; L got] ->
    let m = List.map show_z (engine_stamps (cz_of_sx timer) (cz_of_sx occ) (List.map cz_of_sx readings)) in
    let g = List.map str got in
    if m = g then "OK " ^ id ^ " " ^ string_of_int (List.length g)
    else Printf.sprintf "MISMATCH %s 0 engine model=[%s] go=[%s]" id (String.concat "," m) (String.concat "," g)
  | _ -> "BADCASE " ^ id

(* ------------------------------------------------------------------ ledger values *)
let output_of_sx x = match lst x with
  | [a; y; v] -> { o_addr = cstr_of_sx a; o_yield = bool_of_sx y; o_val = n_of_sx v }
  | _ -> raise (Parse "output")
let input_of_sx x = match lst x with
  | [i; r; k; s] -> { i_idx = n_of_sx i; i_ref = cstr_of_sx r; i_key = cstr_of_sx k; i_sig = cstr_of_sx s }
  | _ -> raise (Parse "input")
let tx_of_sx x = match lst x with
  | [A "tx"; id; i; o; ts] ->
    { t_id = cstr_of_sx id; t_ins = slice_of_sx input_of_sx i; t_outs = slice_of_sx output_of_sx o; t_ts = cz_of_sx ts }
  | _ -> raise (Parse "tx")
let hash_of_hex (h : ostring) : hash =
  List.init (String.length h / 2) (fun i -> n_of_z (ZA.of_int (hexval h.[2*i] * 16 + hexval h.[2*i+1])))
let hex_of_hash (h : hash) : ostring =
  String.concat "" (List.map (fun b -> Printf.sprintf "%02x" (ZA.to_int (z_of_n b))) h)
let block_of_sx x = match lst x with
  | [A "block"; p; a; r; ts; t] ->
    { b_prev = hash_of_hex (str p); b_added = slice_of_sx cstr_of_sx a; b_removed = slice_of_sx cstr_of_sx r;
      b_ts = cz_of_sx ts; b_txs = slice_of_sx tx_of_sx t }
  | _ -> raise (Parse "block")

let err_name (e : err) : ostring = match e with
  | EUnknownId -> "unknown-id" | ENoIndex -> "no-index" | EOwner -> "owner" | EOverflow -> "overflow"
  | ENegFee -> "neg-fee" | ELowFee -> "low-fee" | EDupId -> "dup-id" | ETwoIncomes -> "two-incomes"
  | EShort -> "short" | EFork -> "fork" | ELink -> "link" | ETime -> "time" | EFuture -> "future"
  | EMultiReward -> "multi-reward" | ETxFuture -> "tx-future" | ETxOld -> "tx-old" | ESig -> "sig"
  | EUnregistered -> "unregistered" | ENoReward -> "no-reward" | ERewardTooBig -> "reward-too-big"
  | EEmptyChain -> "empty-chain" | EInPool -> "in-pool" | ESameTick -> "same-tick" | EMissedTick -> "missed-tick"
  | ETimeout -> "timeout" | EFetch -> "fetch" | EDecode -> "decode"
  | EPanic PsNoOutputs -> "PANIC:no-outputs" | EPanic PsNilElem -> "PANIC:nil-elem"
  | EPanic PsNilRequest -> "PANIC:nil-request" | EPanic PsSliceBounds -> "PANIC:slice-bounds"
  | EPanic PsDivZero -> "PANIC:div-zero"

(* ------------------------------------------------------------------ oracles of one case *)
type oracles = {
  value_fn : n -> bool -> Model.z -> n;
  addr_of : Model.string -> Model.string;
  sig_ok : input -> bool;
  hblock : block -> hash;
  st : settings;
  validator : Model.string;
}

let sha_memo : (ostring, hash) Hashtbl.t = Hashtbl.create 4096
let hblock_memo (b : block) : hash =
  let key = ostr (render (marshal_block b)) in
  match Hashtbl.find_opt sha_memo key with
  | Some h -> h
  | None -> let h = sha256 (bytes_of_string (cstr key)) in Hashtbl.replace sha_memo key h; h

let mk_oracles (sets : Sx.t) (values : Sx.t list) (addrs : Sx.t list) (sigs : Sx.t list) : oracles =
  let vt = Hashtbl.create 256 and at = Hashtbl.create 16 and sgt = Hashtbl.create 64 in
  List.iter (fun x -> match lst x with
    | [v; y; e; r] -> Hashtbl.replace vt (str v, bool_of_sx y, str e) (n_of_sx r)
    | _ -> raise (Parse "values")) values;
  List.iter (fun x -> match lst x with
    | [k; a] -> Hashtbl.replace at (str k) (cstr_of_sx a)
    | _ -> raise (Parse "addrs")) addrs;
  List.iter (fun x -> match lst x with
    | [i; r; k; s; ok] -> Hashtbl.replace sgt (str i, str r, str k, str s) (bool_of_sx ok)
    | _ -> raise (Parse "sigs")) sigs;
  let st, validator = match lst sets with
    | [i; f; g; l; v] -> ({ s_interval = cz_of_sx i; s_fee = n_of_sx f; s_genesis = n_of_sx g; s_limit = n_of_sx l }, cstr_of_sx v)
    | _ -> raise (Parse "settings") in
  { value_fn = (fun v y e ->
        let key = (show_n v, y, show_z e) in
        match Hashtbl.find_opt vt key with Some r -> r
        | None -> raise (Oracle_miss (Printf.sprintf "value %s %b %s" (show_n v) y (show_z e))));
    addr_of = (fun k -> match Hashtbl.find_opt at (ostr k) with Some a -> a
        | None -> raise (Oracle_miss ("addr " ^ ostr k)));
    sig_ok = (fun i ->
        let key = (show_n i.i_idx, ostr i.i_ref, ostr i.i_key, ostr i.i_sig) in
        match Hashtbl.find_opt sgt key with Some b -> b
        | None -> raise (Oracle_miss ("sig " ^ ostr i.i_ref)));
    hblock = hblock_memo; st; validator }

(* ------------------------------------------------------------------ observation digest *)
let show_utxo (u : utxo) : ostring =
  Printf.sprintf "%s/%s/%s/%s/%s" (ostr u.u_ref) (show_n u.u_idx) (show_n u.u_out.o_val)
    (if u.u_out.o_yield then "y" else "n") (show_z u.u_ts)

let digest_state (o : oracles) (universe : Model.string list) (nd : node) : ostring =
  let c = nd.n_c in
  let chain_s = String.concat "," (List.map (fun b -> hex_of_hash (o.hblock b)) c.chain) in
  let utx = String.concat "|" (List.map (fun a ->
      show_str (ostr a) ^ ":" ^ String.concat ";" (List.map show_utxo (utxos_of c.ur a))) universe) in
  let reg = String.concat "," (List.filter_map (fun a ->
      if is_registered c.ar a then Some (show_str (ostr a)) else None) universe) in
  let pend = match c.ar.pending with None -> "nil" | Some l -> "[" ^ String.concat "," (List.map (fun a -> show_str (ostr a)) l) ^ "]" in
  let pool = match nd.n_pool with None -> "nil" | Some l -> "[" ^ String.concat "," (List.map (fun t -> ostr t.t_id) l) ^ "]" in
  Printf.sprintf "C=%s#U=%s#G=%s#P=%s#T=%s" chain_s utx reg pend pool

let drop_name = function
  | DFuture -> "future" | DOld -> "old" | DSig -> "sig" | DFee _ -> "fee" | DUpdate _ -> "update"

let response_of_sx x : response = match lst x with
  | A "fail" :: _ -> RFail EFetch
  | A "blocks" :: bl -> RBlocks (List.map block_of_sx bl)
  | _ -> raise (Parse "response")

(* run one node history; returns (ops run, first mismatch) *)
let run_node (id : ostring) (body : Sx.t list) : ostring =
  match body with
  | [ L (A "settings" :: sets); L (A "values" :: values); L (A "addrs" :: addrs); L (A "sigs" :: sigs);
      L (A "universe" :: univ); L (A "ops" :: ops) ] ->
    let o = mk_oracles (L sets) values addrs sigs in
    let universe = List.map cstr_of_sx univ in
    let nd = ref node_empty in
    let regs = ref (VR0, AR0, UR0) in
    let last_v = ref "-" and last_a = ref "-" and last_u = ref "-" in
    let k = ref 0 in
    let mism = ref None in
    let check (res : ostring) (nd' : node) (obs : Sx.t) =
      let d = "R=" ^ res ^ "#" ^ digest_state o universe nd' in
      if md5 d <> str obs && !mism = None then mism := Some (!k, d)
    in
    (try
      List.iter (fun op ->
        if !mism = None then begin
          (match lst op with
           | [A "validate"; ts; L perm; obs] ->
             let (nd', out) = validate o.value_fn o.addr_of o.sig_ok o.hblock gen_id_sha o.st o.validator !nd
                 (cz_of_sx ts) (List.map (fun p -> nat_of_int (int_of_sx p)) perm) in
             let res = match out with
               | Produced dl -> "produced:" ^ String.concat "," (List.map (fun (_, d) -> drop_name d) dl)
               | Refused e -> "refused" in
             ignore err_name;
             check res nd' obs; nd := nd'
           | [A "admit"; t; obs] ->
             (match pool_add o.value_fn o.addr_of o.sig_ok o.st !nd (tx_of_sx t) with
              | Ok nd' -> check "ok" nd' obs; nd := nd'
              | Err e -> check ("err:" ^ err_name e) !nd obs)
           | [A "regsync"; L poh; L order; obs] ->
             let tbl = Hashtbl.create 8 in
             List.iter (fun x -> match lst x with
               | [a; v] -> Hashtbl.replace tbl (str a) (match str v with "1" -> Some true | "0" -> Some false | _ -> None)
               | _ -> raise (Parse "poh")) poh;
             let pohf a = match Hashtbl.find_opt tbl (ostr a) with Some v -> v | None -> None in
             let c = (!nd).n_c in
             let nd' = { !nd with n_c = { c with ar = reg_sync c.ar pohf (List.map cstr_of_sx order) } } in
             check "-" nd' obs; nd := nd'
           | [A "update"; now; L nbs; A gores; obs] ->
             let nbl = List.map (fun x -> match lst x with
               | [t; r1; r2] -> { nb_target = cstr_of_sx t; nb_inc = response_of_sx r1; nb_full = response_of_sx r2 }
               | _ -> raise (Parse "neighbor")) nbs in
             let c = (!nd).n_c in
             let cand = candidates o.value_fn o.addr_of o.sig_ok o.hblock o.st c (cz_of_sx now) nbl in
             let accepted = List.sort compare (List.filter_map (fun (t, _) ->
                 let t = ostr t in if t = "host" then None else Some (show_str t)) cand) in
             if Sys.getenv_opt "RV_DEBUG" <> None then begin
               let hostb = c.chain in
               let n = List.length hostb in
               let tip = if n > 0 then [List.nth hostb (n-1)] else [] in
               let old = List.filteri (fun i _ -> i < n - 1) hostb in
               List.iter (fun nb ->
                 let show l lasth oldh = match verify o.value_fn o.addr_of o.sig_ok o.hblock o.st c lasth l oldh (cz_of_sx now) with
                   | Ok _ -> "accepted" | Err e -> err_name e in
                 let inc = match nb.nb_inc with RBlocks l -> show l tip old | RFail _ -> "fail" in
                 let full = match nb.nb_full with RBlocks l -> show l old [] | RFail _ -> "fail" in
                 Printf.eprintf "DEBUG %s op%d neighbor %s: incremental=%s full=%s\n" id !k (ostr nb.nb_target) inc full) nbl
             end;
             let try_pref pref =
               let (c', rep) = update o.value_fn o.addr_of o.sig_ok o.hblock o.st c (cz_of_sx now) nbl (cstr pref) in
               let res = (if rep then "replaced" else "kept") ^ ":" ^ String.concat "," accepted in
               let nd' = { !nd with n_c = c' } in
               (res, nd') in
             (* ties in the arg-max resolve by Go's map iteration order: any candidate may come first *)
             let prefs = "host" :: List.map (fun (t, _) -> ostr t) cand in
             let results = List.map try_pref prefs in
             ignore gores;
             let matching = List.filter (fun (res, nd') -> md5 ("R=" ^ res ^ "#" ^ digest_state o universe nd') = str obs) results in
             (match matching with
              | (res, nd') :: _ -> check res nd' obs; nd := nd'
              | [] -> let (res, nd') = List.hd results in check res nd' obs; nd := nd')
           (* ---- the phase-level machine of model/Interleave.v ---- *)
           | A ph :: rest when (String.length ph >= 3 && (String.sub ph 0 2 = "iv" || String.sub ph 0 2 = "ia" || String.sub ph 0 2 = "iu"))
                            || ph = "vdone" || ph = "adone" || ph = "udone" || ph = "final" ->
             let obs = List.nth rest (List.length rest - 1) in
             let args = List.filteri (fun i _ -> i < List.length rest - 1) rest in
             let (rv, ra, ru) = !regs in
             let mk () = { i_n = !nd; i_v = rv; i_a = ra; i_u = ru } in
             let perm_of l = List.map (fun p -> nat_of_int (int_of_sx p)) l in
             let nbs_of nbs = List.map (fun x -> match lst x with
               | [t; r1; r2] -> { nb_target = cstr_of_sx t; nb_inc = response_of_sx r1; nb_full = response_of_sx r2 }
               | _ -> raise (Parse "neighbor")) nbs in
             let out_name = function
               | ONone -> "-"
               | OVal (Produced dl) -> "produced:" ^ String.concat "," (List.map (fun (_, d) -> drop_name d) dl)
               | OVal (Refused _) -> "refused"
               | OAdd None -> "ok"
               | OAdd (Some e) -> "err:" ^ err_name e
               | OUpd true -> "replaced"
               | OUpd false -> "kept" in
             let istep_ s op = istep o.value_fn o.addr_of o.sig_ok o.hblock gen_id_sha o.st o.validator s op in
             let apply op =
               let (s', out) = istep_ (mk ()) op in
               nd := s'.i_n; regs := (s'.i_v, s'.i_a, s'.i_u);
               (match out with
                | OVal _ -> last_v := out_name out
                | OAdd _ -> last_a := out_name out
                | OUpd _ -> last_u := out_name out
                | ONone -> ());
               out_name out in
             (* a sync round's arg-max resolves ties by Go's map order: try every preferred target and
                keep the first whose final state the rest of the history confirms; the histories of the
                sweep have one neighbor, so "host" and that neighbor are the only candidates *)
             let iu3 now nbs =
               let nbl = nbs_of nbs in
               let prefs = "host" :: List.map (fun nb -> ostr nb.nb_target) nbl in
               let want = match str obs with
                 | x when String.length x > 2 && String.sub x 0 2 = "r:" -> Some (String.sub x 2 (String.length x - 2))
                 | _ -> None in
               let outcome pref = out_name (snd (istep_ (mk ()) (IU3 (cz_of_sx now, nbl, cstr pref)))) in
               let pref = match List.filter (fun p -> Some (outcome p) = want) prefs with
                 | p :: _ -> p
                 | [] -> List.hd prefs in
               apply (IU3 (cz_of_sx now, nbl, cstr pref)) in
             let res =
               (match ph, args with
                | "iv1", [ts] -> apply (IV1 (cz_of_sx ts))
                | "iv2", [] -> apply IV2
                | "iv3", [] -> apply IV3
                | "iv4", [_; L perm] -> apply (IV4 (perm_of perm))
                | "vdone", [_; L perm] ->
                  (match rv with
                   | VR0 -> !last_v
                   | VR3 _ -> apply (IV4 (perm_of perm))
                   | _ -> "model-midway")
                | "ia1", [t] -> apply (IA1 (tx_of_sx t))
                | "ia2", [] -> apply IA2
                | "ia3", [] -> apply IA3
                | "adone", [] ->
                  (match ra with
                   | AR0 -> !last_a
                   | AR3 _ -> apply IA4
                   | _ -> "model-midway")
                | "iu1", [] -> apply IU1
                | "iu2", [] -> apply IU2
                | "iu3", [now; L nbs] -> iu3 now nbs
                | "udone", [now; L nbs] ->
                  (match ru with
                   | UR0 -> !last_u
                   | UR1 _ -> ignore (apply IU2); iu3 now nbs
                   | UR2 _ -> iu3 now nbs)
                | "final", [] -> "final"
                | _ -> raise (Parse ("phase op in " ^ id))) in
             (match str obs with
              | "_" -> ()
              | x when String.length x > 2 && String.sub x 0 2 = "r:" ->
                if String.sub x 2 (String.length x - 2) <> res && !mism = None then
                  mism := Some (!k, "R=" ^ res ^ " (the implementation reported " ^ x ^ ")")
              | _ -> check res !nd obs)
           | _ -> raise (Parse ("op in " ^ id)));
          incr k
        end) ops;
      match !mism with
      | None -> Printf.sprintf "OK %s %d" id !k
      | Some (i, d) -> Printf.sprintf "MISMATCH %s %d model=%s" id i d
    with Oracle_miss m -> Printf.sprintf "ORACLEMISS %s %d %s" id !k m)
  | _ -> "BADCASE " ^ id

(* ------------------------------------------------------------------ paging (C08) *)
let run_page (id : ostring) (body : Sx.t list) : ostring =
  match body with
  | [limit; n; h; gstart; gcnt] ->
    let nn = int_of_sx n in
    let dummy i = { b_prev = []; b_added = None; b_removed = None; b_ts = cz_of_z (ZA.of_int i); b_txs = None } in
    let chain = List.init nn dummy in
    let st = { s_interval = Z0; s_fee = N0; s_genesis = N0; s_limit = n_of_sx limit } in
    let m = match blocks_page st chain (n_of_sx h) with
      | Ok [] -> "-1 0"
      | Ok (b :: r) -> Printf.sprintf "%s %d" (show_z b.b_ts) (1 + List.length r)
      | Err e -> err_name e in
    let g = str gstart ^ " " ^ str gcnt in
    if m = g then "OK " ^ id ^ " 1" else Printf.sprintf "MISMATCH %s 0 page model=%s go=%s" id m g
  | _ -> "BADCASE " ^ id

(* ------------------------------------------------------------------ neighborhood (C17) *)
let run_nb (id : ostring) (body : Sx.t list) : ostring =
  match body with
  | [ L [A "env"; host; hport; mx; L seeds]; L (A "split" :: sp); L (A "resolve" :: rs); L (A "ops" :: ops) ] ->
    let spt = Hashtbl.create 32 and rst = Hashtbl.create 32 in
    List.iter (fun x -> match lst x with
      | [tv; A "fail"] -> Hashtbl.replace spt (str tv) None
      | [tv; ip; port] -> Hashtbl.replace spt (str tv) (Some (cstr_of_sx ip, cstr_of_sx port))
      | _ -> raise (Parse "split")) sp;
    List.iter (fun x -> match lst x with
      | [ip; port; A "fail"] -> Hashtbl.replace rst (str ip, str port) None
      | [ip; port; t] -> Hashtbl.replace rst (str ip, str port) (Some (cstr_of_sx t))
      | _ -> raise (Parse "resolve")) rs;
    let split_hp tv = match Hashtbl.find_opt spt (ostr tv) with Some v -> v | None -> raise (Oracle_miss ("split " ^ ostr tv)) in
    let resolve ip port = match Hashtbl.find_opt rst (ostr ip, ostr port) with Some v -> v | None -> raise (Oracle_miss ("resolve " ^ ostr ip)) in
    let hostc = cstr_of_sx host and hportc = cstr_of_sx hport in
    let maxz = cz_of_sx mx in
    let seedm = List.map (fun x -> match lst x with [tv; sc] -> (cstr_of_sx tv, cz_of_sx sc) | _ -> raise (Parse "seed")) seeds in
    let scores = ref [] in
    let k = ref 0 and mism = ref None in
    (try
      List.iter (fun op ->
        if !mism = None then begin
          (match lst op with
           | [A "add"; L ts] -> scores := add_targets split_hp hportc !scores (List.map cstr_of_sx ts)
           | [A "inc"; t] -> scores := incentive !scores (cstr_of_sx t)
           | [A "setres"; ip; port; A "fail"] -> Hashtbl.replace rst (str ip, str port) None
           | [A "setres"; ip; port; t] -> Hashtbl.replace rst (str ip, str port) (Some (cstr_of_sx t))
           | [A "sync"; L outs; L fans] ->
             let m = known seedm !scores in
             let order = List.map fst m in
             let outl = List.map cstr_of_sx outs in
             if not (admissible_outbounds split_hp resolve hostc m order maxz outl) then
               mism := Some (!k, "selected outbounds [" ^ String.concat "," (List.map str outs) ^ "] are not an admissible result of the selection")
             else begin
               let r = reachable split_hp resolve hostc m order in
               List.iter (fun f -> match lst f with
                 | [q; L sent] ->
                   let want = List.sort compare (List.map ostr (fanout hostc r (cstr_of_sx q))) in
                   let got = List.sort compare (List.map str sent) in
                   if want <> got && !mism = None then
                     mism := Some (!k, Printf.sprintf "peer %s was sent [%s], model [%s]" (str q) (String.concat "," got) (String.concat "," want))
                 | _ -> raise (Parse "fan")) fans
             end;
             scores := []
           | _ -> raise (Parse "nb op"));
          incr k
        end) ops;
      match !mism with
      | None -> Printf.sprintf "OK %s %d" id !k
      | Some (i, d) -> Printf.sprintf "MISMATCH %s %d %s" id i d
    with Oracle_miss m -> Printf.sprintf "ORACLEMISS %s %d %s" id !k m)
  | _ -> "BADCASE " ^ id

(* ------------------------------------------------------------------ access node (C18, C19) *)
let run_wallet (id : ostring) (body : Sx.t list) : ostring =
  match body with
  | [fee; cons; amount; L hold; got] ->
    let hs = List.map (fun x -> match lst x with
      | [t; i; v] -> ((cstr_of_sx t, n_of_sx i), n_of_sx v) | _ -> raise (Parse "holding")) hold in
    let m = match tx_info (n_of_sx fee) (bool_of_sx cons) (n_of_sx amount) hs with
      | Info405 -> "405"
      | InfoOk (rest, ins) -> Printf.sprintf "(ok %s (%s))" (show_n rest)
                                (String.concat " " (List.map (fun (t, i) -> Printf.sprintf "(%s %s)" (show_str (ostr t)) (show_n i)) ins))
      | InfoPanic -> "PANIC" | InfoFuel -> "FUEL" in
    let rec show = function A a -> show_str (atom_string a) | L l -> "(" ^ String.concat " " (List.map show l) ^ ")" in
    let g = show got in
    if m = g then "OK " ^ id ^ " 1" else Printf.sprintf "MISMATCH %s 0 info model=%s go=%s" id m g
  | _ -> "BADCASE " ^ id

let run_amount (id : ostring) (body : Sx.t list) : ostring =
  match body with
  | [L vals; got] ->
    let m = show_n (wallet_amount (List.map n_of_sx vals)) in
    if m = str got then "OK " ^ id ^ " 1" else Printf.sprintf "MISMATCH %s 0 amount model=%s go=%s" id m (str got)
  | _ -> "BADCASE " ^ id

let run_progress (id : ostring) (body : Sx.t list) : ostring =
  match body with
  | [searched; utxos; first; blocks; pool; got] ->
    let opt f = function A "none" -> None | x -> Some (f x) in
    let refp x = match lst x with [t; i] -> (cstr_of_sx t, n_of_sx i) | _ -> raise (Parse "ref") in
    let p = progress_of (opt refp searched) (opt (fun x -> List.map refp (lst x)) utxos) (opt cz_of_sx first)
        (opt (fun x -> List.map (fun b -> List.map cstr_of_sx (lst b)) (lst x)) blocks)
        (opt (fun x -> List.map cstr_of_sx (lst x)) pool) in
    let m = match p with
      | PConfirmed -> "confirmed" | PValidated -> "validated" | PSent -> "sent" | PRejected -> "rejected"
      | PError c -> "error" ^ show_n c in
    if m = str got then "OK " ^ id ^ " 1" else Printf.sprintf "MISMATCH %s 0 progress model=%s go=%s" id m (str got)
  | _ -> "BADCASE " ^ id

(* ------------------------------------------------------------------ wire (C15) *)
let hex_of_ostring (s : ostring) : ostring =
  let b = Buffer.create (2 * String.length s) in
  String.iter (fun c -> Buffer.add_string b (Printf.sprintf "%02x" (Char.code c))) s; Buffer.contents b

let run_wire (id : ostring) (body : Sx.t list) : ostring =
  match body with
  | [A "block"; b; gobytes; gohash] ->
    let blk = block_of_sx b in
    let mb = ostr (render (marshal_block blk)) in
    let mh = hex_of_hash (block_hash_sha blk) in
    if mb <> str gobytes then Printf.sprintf "MISMATCH %s 0 encode model=%s go=%s" id mb (str gobytes)
    else if mh <> str gohash then Printf.sprintf "MISMATCH %s 0 hash model=%s go=%s" id mh (str gohash)
    else begin
      (* transaction ids: the model's SHA-256 of the id body *)
      let bad = List.filter (fun t -> ostr (gen_id_sha t.t_ins t.t_outs t.t_ts) <> ostr t.t_id) (match blk.b_txs with Some l -> l | None -> []) in
      match bad with
      | [] -> "OK " ^ id ^ " 1"
      | t :: _ -> Printf.sprintf "MISMATCH %s 0 txid model=%s go=%s" id (ostr (gen_id_sha t.t_ins t.t_outs t.t_ts)) (ostr t.t_id)
    end
  | _ -> "BADCASE " ^ id

(* bytes -> tree: the model's own parser (model/JsonParse.v, extracted); it stands for Go's lexer and is
   tied to it by every decoder and settings case *)
exception Json_error of ostring
let parse_text (s : ostring) : json =
  match parse_json (Sx.cstr s) with Some j -> j | None -> raise (Json_error "rejected by parse_json")

let derr_ok (go : ostring) = String.length go >= 3 && String.sub go 0 3 = "ok:"

let run_decode (id : ostring) (body : Sx.t list) : ostring =
  match body with
  | [A kind; text; got] ->
    let go = str got in
    (try
      let tree = parse_text (str text) in
      let on_curve _ = true in
      let m = match kind with
        | "tx" -> (match unmarshal_tx on_curve sha256 tree with
            | Ok t -> "ok:" ^ hex_of_ostring (ostr (render (marshal_tx t)))
            | Err _ -> "err")
        | _ -> (match unmarshal_blocks on_curve sha256 tree with
            | Ok _ when tree = JNull -> "ok:" ^ hex_of_ostring "null"   (* a nil slice is re-encoded as null, not [] *)
            | Ok l -> "ok:" ^ hex_of_ostring (ostr (render (JArr (List.map (function None -> JNull | Some b -> marshal_block b) l))))
            | Err _ -> "err") in
      let g = if derr_ok go then go else "err" in
      if m = g then "OK " ^ id ^ " 1"
      else Printf.sprintf "MISMATCH %s 0 decode(%s) model=%s go=%s" id kind (if String.length m > 300 then String.sub m 0 300 else m) (if String.length go > 300 then String.sub go 0 300 else go)
    with Json_error e ->
      if derr_ok go then Printf.sprintf "MISMATCH %s 0 decode: the glue parser rejects text that Go accepts (%s)" id e else "OK " ^ id ^ " 1")
  | _ -> "BADCASE " ^ id

(* ------------------------------------------------------------------ the lexer: bytes -> tree *)
let run_lex (id : ostring) (body : Sx.t list) : ostring =
  match body with
  | [A kind; text; got] ->
    let go = str got in
    let t = str text in
    let m = match kind, parse_json (Sx.cstr t) with
      | "doc", Some _ -> "valid"
      | "doc", None -> "invalid"
      | "string", Some (JStr s) -> "ok:" ^ hex_of_ostring (ostr (render (JStr s)))
      | "number", Some (JNum z) -> "ok:" ^ ostr (render (JNum z))
      | "number", Some (JNumF l) -> "ok:" ^ ostr l
      | _, _ -> "err" in
    if m = go then "OK " ^ id ^ " 1"
    else Printf.sprintf "MISMATCH %s 0 lex(%s) model=%s go=%s text=%s" id kind m go (String.escaped (if String.length t > 200 then String.sub t 0 200 else t))
  | _ -> "BADCASE " ^ id

(* ------------------------------------------------------------------ settings decoder *)
let run_settings (id : ostring) (body : Sx.t list) : ostring =
  match body with
  | [text; got] ->
    let go = str got in
    (try
      let tree = parse_text (str text) in
      let m = match decode_settings tree with
        | StPanic -> "panic"
        | StErr _ -> "err"
        | StOk p ->
          let opt f = function Some x -> f x | None -> "-" in
          String.concat "," [ "ok:" ^ show_n p.ps_limit; show_n p.ps_genesis; opt show_z (half_life_ns p); show_n p.ps_base;
                              show_n p.ps_ilimit; show_n p.ps_fee; opt show_n (units_per_coin p); show_z p.ps_timeout;
                              show_z p.ps_timer; show_z p.ps_timestamp; show_z p.ps_verifs ] in
      (* fields the model gives no value for ("-") are not compared *)
      let same =
        if String.length m >= 3 && String.sub m 0 3 = "ok:" && String.length go >= 3 && String.sub go 0 3 = "ok:" then begin
          let ms = String.split_on_char ',' m and gs = String.split_on_char ',' go in
          List.length ms = List.length gs && List.for_all2 (fun a b -> a = "-" || a = b || a = "ok:-") ms gs
        end else m = go in
      if same then "OK " ^ id ^ " 1"
      else Printf.sprintf "MISMATCH %s 0 settings model=%s go=%s" id m go
    with Json_error e ->
      if go = "err" then "OK " ^ id ^ " 1" else Printf.sprintf "MISMATCH %s 0 settings: the glue parser rejects text that Go accepts (%s): go=%s" id e go)
  | _ -> "BADCASE " ^ id

(* ------------------------------------------------------------------ main *)
let () =
  let file = Sys.argv.(1) in
  let items = parse_all (read_file file) in
  List.iter (fun it ->
    let line =
      try
        match it with
        | L (A "clockcase" :: A id :: body) -> run_clock id body
        | L (A "nodecase" :: A id :: body) -> run_node id body
        | L (A "pagecase" :: A id :: body) -> run_page id body
        | L (A "nbcase" :: A id :: body) -> run_nb id body
        | L (A "wirecase" :: A id :: body) -> run_wire id body
        | L (A "decodecase" :: A id :: body) -> run_decode id body
        | L (A "settingscase" :: A id :: body) -> run_settings id body
        | L (A "lexcase" :: A id :: body) -> run_lex id body
        | L (A "walletcase" :: A id :: body) -> run_wallet id body
        | L (A "amountcase" :: A id :: body) -> run_amount id body
        | L (A "progresscase" :: A id :: body) -> run_progress id body
        | L (A kind :: A id :: _) -> "BADKIND " ^ kind ^ " " ^ id
        | _ -> "BADITEM"
      with
      | Parse m -> "PARSEERROR " ^ m
      | Failure m -> "FAILURE " ^ m
    in
    print_endline line) items
