(* jsonp.ml — trusted glue: JSON text -> the model's json tree (the step Go's lexer performs).
   Integer literals become JNum, every other number literal JNumF with its text; strings are
   unescaped to UTF-8 bytes (invalid escapes / lone surrogates become U+FFFD as in Go);
   duplicate keys are kept in order. *)
module ZA = Z
type ostring = String.t
open Model

exception Json_error of ostring

let utf8 (b : Buffer.t) (c : int) =
  if c < 0x80 then Buffer.add_char b (Char.chr c)
  else if c < 0x800 then (Buffer.add_char b (Char.chr (0xC0 lor (c lsr 6))); Buffer.add_char b (Char.chr (0x80 lor (c land 0x3F))))
  else if c < 0x10000 then (Buffer.add_char b (Char.chr (0xE0 lor (c lsr 12))); Buffer.add_char b (Char.chr (0x80 lor ((c lsr 6) land 0x3F))); Buffer.add_char b (Char.chr (0x80 lor (c land 0x3F))))
  else (Buffer.add_char b (Char.chr (0xF0 lor (c lsr 18))); Buffer.add_char b (Char.chr (0x80 lor ((c lsr 12) land 0x3F))); Buffer.add_char b (Char.chr (0x80 lor ((c lsr 6) land 0x3F))); Buffer.add_char b (Char.chr (0x80 lor (c land 0x3F))))

let parse (s : ostring) : json =
  let n = String.length s in
  let pos = ref 0 in
  let peek () = if !pos < n then s.[!pos] else '\000' in
  let rec ws () = if !pos < n then match s.[!pos] with ' ' | '\n' | '\t' | '\r' -> incr pos; ws () | _ -> () in
  let expect c = if peek () = c then incr pos else raise (Json_error (Printf.sprintf "expected %c at %d" c !pos)) in
  let hex4 () =
    if !pos + 4 > n then raise (Json_error "short \\u");
    let v = int_of_string ("0x" ^ String.sub s !pos 4) in pos := !pos + 4; v in
  let parse_string () =
    expect '"';
    let b = Buffer.create 16 in
    let fin = ref false in
    while not !fin do
      if !pos >= n then raise (Json_error "unterminated string");
      let c = s.[!pos] in
      incr pos;
      if c = '"' then fin := true
      else if c = '\\' then begin
        let e = peek () in incr pos;
        match e with
        | '"' -> Buffer.add_char b '"' | '\\' -> Buffer.add_char b '\\' | '/' -> Buffer.add_char b '/'
        | 'b' -> Buffer.add_char b '\b' | 'f' -> Buffer.add_char b '\012' | 'n' -> Buffer.add_char b '\n'
        | 'r' -> Buffer.add_char b '\r' | 't' -> Buffer.add_char b '\t'
        | 'u' ->
          let c1 = hex4 () in
          if c1 >= 0xD800 && c1 < 0xDC00 && !pos + 6 <= n && s.[!pos] = '\\' && s.[!pos+1] = 'u' then begin
            let save = !pos in
            pos := !pos + 2;
            let c2 = hex4 () in
            if c2 >= 0xDC00 && c2 < 0xE000 then utf8 b (0x10000 + ((c1 - 0xD800) lsl 10) + (c2 - 0xDC00))
            else (pos := save; utf8 b 0xFFFD)
          end else if c1 >= 0xD800 && c1 < 0xE000 then utf8 b 0xFFFD
          else utf8 b c1
        | _ -> raise (Json_error "bad escape")
      end else Buffer.add_char b c
    done;
    Buffer.contents b in
  let rec value () : json =
    ws ();
    match peek () with
    | '{' ->
      incr pos; ws ();
      if peek () = '}' then (incr pos; JObj [])
      else begin
        let acc = ref [] in
        let fin = ref false in
        while not !fin do
          ws ();
          let k = parse_string () in
          ws (); expect ':';
          let v = value () in
          acc := (Sx.cstr k, v) :: !acc;
          ws ();
          if peek () = ',' then incr pos else (expect '}'; fin := true)
        done;
        JObj (List.rev !acc)
      end
    | '[' ->
      incr pos; ws ();
      if peek () = ']' then (incr pos; JArr [])
      else begin
        let acc = ref [] in
        let fin = ref false in
        while not !fin do
          let v = value () in
          acc := v :: !acc;
          ws ();
          if peek () = ',' then incr pos else (expect ']'; fin := true)
        done;
        JArr (List.rev !acc)
      end
    | '"' -> JStr (Sx.cstr (parse_string ()))
    | 't' -> pos := !pos + 4; JBool true
    | 'f' -> pos := !pos + 5; JBool false
    | 'n' -> pos := !pos + 4; JNull
    | _ ->
      let st = !pos in
      while !pos < n && (match s.[!pos] with '0'..'9' | '-' | '+' | '.' | 'e' | 'E' -> true | _ -> false) do incr pos done;
      let lit = String.sub s st (!pos - st) in
      if lit = "" then raise (Json_error (Printf.sprintf "unexpected character at %d" st));
      let is_int = lit <> "-0" && (let ok = ref true in String.iteri (fun i c -> match c with '0'..'9' -> () | '-' when i = 0 -> () | _ -> ok := false) lit; !ok) in
      if is_int then JNum (Sx.cz_of_z (ZA.of_string lit)) else JNumF (Sx.cstr lit)
  in
  let v = value () in
  ws ();
  if !pos < n then raise (Json_error "trailing data");
  v
