(* sx.ml — trusted glue: S-expression reader and conversions between OCaml values and the
   datatypes of the extracted model (Coq positives, N, Z, strings as lists of ascii). *)
module ZA = Z
type ostring = String.t
type t = A of ostring | L of t list

exception Parse of ostring

let parse_all (s : ostring) : t list =
  let n = String.length s in
  let pos = ref 0 in
  let rec skip () =
    if !pos < n then
      match s.[!pos] with
      | ' ' | '\n' | '\t' | '\r' -> incr pos; skip ()
      | ';' -> while !pos < n && s.[!pos] <> '\n' do incr pos done; skip ()
      | _ -> ()
  in
  let rec item () =
    skip ();
    if !pos >= n then raise (Parse "eof");
    if s.[!pos] = '(' then begin
      incr pos;
      let acc = ref [] in
      let fin = ref false in
      while not !fin do
        skip ();
        if !pos >= n then raise (Parse "unclosed");
        if s.[!pos] = ')' then (incr pos; fin := true) else acc := item () :: !acc
      done;
      L (List.rev !acc)
    end else begin
      let st = !pos in
      while !pos < n && (match s.[!pos] with ' ' | '\n' | '\t' | '\r' | '(' | ')' -> false | _ -> true) do incr pos done;
      A (String.sub s st (!pos - st))
    end
  in
  let out = ref [] in
  (try while true do skip (); if !pos >= n then raise Exit; out := item () :: !out done with Exit -> ());
  List.rev !out

let read_file (f : ostring) : ostring =
  let ic = open_in_bin f in
  let n = in_channel_length ic in
  let s = really_input_string ic n in
  close_in ic; s

(* atoms: "$hex" = hex-encoded byte ostring, anything else is the ostring itself *)
let hexval c = match c with
  | '0'..'9' -> Char.code c - 48 | 'a'..'f' -> Char.code c - 87 | 'A'..'F' -> Char.code c - 55
  | _ -> raise (Parse "hex")
let atom_string (a : ostring) : ostring =
  if String.length a > 0 && a.[0] = '$' then begin
    let m = (String.length a - 1) / 2 in
    String.init m (fun i -> Char.chr (hexval a.[1 + 2*i] * 16 + hexval a.[2 + 2*i]))
  end else if a = "\"\"" then "" else a

let str = function A a -> atom_string a | L _ -> raise (Parse "expected atom")
let lst = function L l -> l | A a -> raise (Parse ("expected list, got " ^ a))

(* ---- Coq numbers ---- *)
open Model

let rec pos_of_z (z : ZA.t) : positive =
  if ZA.equal z ZA.one then XH
  else if ZA.is_even z then XO (pos_of_z (ZA.shift_right z 1))
  else XI (pos_of_z (ZA.shift_right z 1))
let n_of_z (z : ZA.t) : n = if ZA.sign z = 0 then N0 else Npos (pos_of_z z)
let cz_of_z (z : ZA.t) : Model.z =
  if ZA.sign z = 0 then Z0 else if ZA.sign z > 0 then Zpos (pos_of_z z) else Zneg (pos_of_z (ZA.neg z))
let rec z_of_pos (p : positive) : ZA.t = match p with
  | XH -> ZA.one
  | XO q -> ZA.shift_left (z_of_pos q) 1
  | XI q -> ZA.succ (ZA.shift_left (z_of_pos q) 1)
let z_of_n (x : n) : ZA.t = match x with N0 -> ZA.zero | Npos p -> z_of_pos p
let z_of_cz (x : Model.z) : ZA.t = match x with Z0 -> ZA.zero | Zpos p -> z_of_pos p | Zneg p -> ZA.neg (z_of_pos p)
let rec nat_of_int (i : int) : nat = if i <= 0 then O else S (nat_of_int (i - 1))
let rec int_of_nat (x : nat) : int = match x with O -> 0 | S m -> 1 + int_of_nat m

let n_of_sx x = n_of_z (ZA.of_string (str x))
let cz_of_sx x = cz_of_z (ZA.of_string (str x))
let int_of_sx x = int_of_string (str x)
let bool_of_sx x = match str x with "1" | "true" | "t" -> true | _ -> false

(* ---- Coq strings ---- *)
let ascii_of_char (c : char) : ascii =
  let k = Char.code c in
  let b i = (k lsr i) land 1 = 1 in
  Ascii (b 0, b 1, b 2, b 3, b 4, b 5, b 6, b 7)
let char_of_ascii (Ascii (b0, b1, b2, b3, b4, b5, b6, b7)) : char =
  let v b i = if b then 1 lsl i else 0 in
  Char.chr (v b0 0 + v b1 1 + v b2 2 + v b3 3 + v b4 4 + v b5 5 + v b6 6 + v b7 7)
let cstr (s : ostring) : Model.string =
  let r = ref EmptyString in
  for i = String.length s - 1 downto 0 do r := String (ascii_of_char s.[i], !r) done; !r
let ostr (s : Model.string) : ostring =
  let b = Buffer.create 64 in
  let rec go = function EmptyString -> () | String (c, r) -> Buffer.add_char b (char_of_ascii c); go r in
  go s; Buffer.contents b
let cstr_of_sx x = cstr (str x)

let slice_of_sx (f : t -> 'a) (x : t) : 'a list option =
  match x with A "nil" -> None | L l -> Some (List.map f l) | A a -> raise (Parse ("slice: " ^ a))

(* printing helpers *)
let show_str (s : ostring) : ostring =
  (* printable ASCII without separators stays as is, anything else as $hex *)
  let ok = ref (String.length s > 0) in
  String.iter (fun c -> match c with
    | 'a'..'z' | 'A'..'Z' | '0'..'9' | '_' | '.' | '-' | '+' -> ()
    | _ -> ok := false) s;
  if !ok then s else begin
    let b = Buffer.create (2 * String.length s + 1) in
    Buffer.add_char b '$';
    String.iter (fun c -> Buffer.add_string b (Printf.sprintf "%02x" (Char.code c))) s;
    Buffer.contents b
  end
