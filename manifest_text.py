# manifest_text.py — the words MANIFEST.json carries per property
PENDING = {
 "C05": "the correspondence suite (accept) and its known findings exist, the theorem file props/C05.v is still being proved; claimed as soon as it compiles",
 "C14": "the correspondence suites (crash, chain, faults) exist, the theorem file props/C14.v is still being proved; claimed as soon as it compiles",
}
TEXT = {
 "C20": {
  "level": "Composition (C20_wiring.v, over tables regenerated from main.go, host.go and the access node's node.go): each engine is created with the expected function, period, occurrences and skipped occurrences; the host gets the validation timeout as connection timeout; every access-node controller that talks to the validator gets NewNode's own sender. Theorems over the integer-nanosecond model of engine.go for every period, sub-slot configuration and sequence of clock readings (no bound): a pulse fires with the next boundary of Go's time grid; every engine stamp is a multiple of the sub-period and stamps never decrease when the clock does not; in the stop protocol at most the call already in flight completes after Stop, for every schedule. The model is tied to the code by running the real Engine on scripted clocks and comparing every stamp.",
  "ref": "DESIGN.md section 4, C20",
  "note": "trusted: Coq kernel, extraction (ExtrOcamlBasic), harness; time.Ticker and goroutine scheduling are not modelled (readings served are the model's input); timestamps within int64 ns",
  "technique": "Coq proof (arithmetic lemmas + invariant of a small LTS) + differential correspondence with the real Engine",
 },
 "C11": {
  "level": "Theorems over the model of transactions_pool.go for all pools, chains, settings and shuffles: admission succeeds exactly when the transaction is dated in [last block, next block], is not pooled, has valid signatures and passes fee and application against confirmed outputs + last block + earlier pooled transactions, and then only appends it; a produced block is exactly the greedy sub-list of the shuffled pool plus one reward to the producer whose value is the add64-fold of the kept fees (never above the exact fees, equal below 2^64); refusals leave the node unchanged. Tied to the code by histories on the real pool with the shuffle recomputed from the same seed.",
  "ref": "DESIGN.md section 4, C11",
  "note": "trusted: Coq kernel, extraction, harness; oracles for ECDSA, address derivation, Utxo.Value; minimal fee >= 1; aligned ticks",
  "technique": "Coq proof (inversion and refinement of the production loop to a greedy specification) + differential correspondence on operation histories",
 },
 "C06": {
  "level": "Theorems over the model of Blockchain.Update for all host states, neighbor answers and tie-breaks: a replaced chain is a surviving candidate that came from a neighbor whose answer passed verify, is never shorter than the host's, is as long as the longest candidate, passes the half-of-the-candidates branch test, has maximal validator age among the survivors, and differs from the host's tip; in every other case the whole state is returned unchanged (the failing-commit branch is proved unreachable for verified candidates). Tied to the code by sync rounds of a real node against up to eight scripted neighbors.",
  "ref": "DESIGN.md section 4, C06",
  "note": "trusted: Coq kernel, extraction, harness; Go map iteration order is an input of the model; no neighbor is literally called \"host\"",
  "technique": "Coq proof (list lemmas on filters and a strict arg-max fold, case analysis of update) + differential correspondence on sync rounds",
 },
 "C09": {
  "level": "41 theorems over the real-number model of Utxo.Value for all amounts, times and settings: decay never exceeds the initial value, is antitone and halves per half-life; income stays between the initial value and the limit, is monotone in time and in the amount, reaches the base from zero after one half-life; valuing twice never gains (even without the +1), with the code's floor placements; the value depends on elapsed time only. The binary64 step is validated pointwise: each sampled point is enclosed by the interval tactic and Go's result must lie within the property's slack.",
  "ref": "DESIGN.md section 4, C09",
  "note": "axioms: the standard real-number axioms + classic + functional_extensionality_dep (Reals/Coquelicot/Interval); Go's libm is not formalised (pointwise validation only)",
  "technique": "Coq proof over Reals (lra/nra/field, exp/ln lemmas) + interval-arithmetic enclosures compared with the implementation",
 },
 "C17": {
  "level": "Theorems over the model of neighborhood.go/target.go for every maximum >= 0, score map, iteration order, shuffle, reachability and resolution oracle: the selection never exceeds the maximum and has exactly min(count, reachable) elements; every selected peer is a reachable known target (or seed) other than the host's own string; no left-out reachable peer has a higher score than a selected one; every selected peer is sent the host and every other reachable target; announced targets are kept iff well-formed and on the host's network, never overwriting a score. Distinctness of sender targets is proved under injective resolution and refuted without it (DNS aliasing: a known finding).",
  "ref": "DESIGN.md section 4, C17",
  "note": "trusted: Coq kernel, extraction, harness; SplitHostPort, DNS and dialing are oracles; the random cut is compared by membership",
  "technique": "Coq proof (list induction over the bucket selection) + differential correspondence on refresh rounds of the real Neighborhood",
 },
 "C18": {
  "level": "Theorems over the model of GetTransactionInfo for all holdings, amounts, fees and both modes (no wrap): 405 exactly when the balance is below amount + fee; otherwise distinct, non-zero holdings whose values sum to amount + fee + rest, all of them under consolidation, exactly one when a single output suffices; the selection loop cannot run out of values (the Go index expression cannot panic). Acceptance by the validator is checked end to end on the real pool, and follows in the model from C11's admission theorem.",
  "ref": "DESIGN.md section 4, C18",
  "note": "trusted: Coq kernel, extraction, harness; Utxo.Value oracle; HTTP layer outside the model; 'admitted and included' is validated on the real pool (and proved only as the composition of C18_exact with C11_admission_complete's hypotheses)",
  "technique": "Coq proof (invariant of the greedy closest-value loop) + differential correspondence and end-to-end submission on a real validator",
 },
 "C19": {
  "level": "Theorems over the models of the balance sum and of the progress cascade for all validator answers: the balance is the sum of the per-output values (mod 2^64); the status is confirmed iff the output is listed, else validated iff its transaction is in the first returned block, else sent iff pooled, else rejected; the complete error table (400 only for an undecodable body; which failing step gives 500; what a listed output masks).",
  "ref": "DESIGN.md section 4, C19",
  "note": "trusted: Coq kernel, extraction, harness; float division/formatting recomputed by the harness",
  "technique": "Coq proof (case analysis of the cascade) + differential correspondence with the real controllers against a live and a fault-injecting validator",
 },
 "C01": {
  "level": "Theorems in exact (non-wrapping) N arithmetic at the three places a transaction is judged: a block accepted by verify_block, every new block of a candidate accepted by verify, a transaction accepted by the pool (valued at the next block time), and every transaction kept by production pay out at most the value of the outputs they consume minus the minimal fee, and the block's single reward is at most the sum of what its transactions leave over (plus the genesis amount in a first block). Block-level conservation follows (C01_supply): a verified or produced block creates, reward included, no more value than its ordinary transactions consume at its timestamp (plus the genesis amount in a first block), given the one-output reward shape that every decoded block has. The pinned tree's wrapping sum is refuted by a concrete witness (fixed in /repo). Tied to the code by histories on the real node with a big-integer monitor on every served chain.",
  "ref": "DESIGN.md section 4, C01",
  "note": "trusted: Coq kernel, extraction, harness; Utxo.Value, ECDSA, address derivation are oracles; the bound is stated against the registry state the code consults at each of the three places (C07 identifies that state with the replay of the chain); the global 'supply' corollary is not proved",
  "technique": "Coq proof (exact-arithmetic lemmas about CalculateFee, inversion of verifyBlock / admission / production loop) + differential correspondence and big-integer monitor on operation histories",
 },
 "C03": {
  "level": "Theorems at the three places a transaction is judged (admission, production, adopted block and every new block of an adopted chain): every input carries a signature accepted for its output reference under its key, and the key's address is the owner of the output it consumes; conversely an unsigned input or a wrong owner is refused at each of the three places.",
  "ref": "DESIGN.md section 4, C03",
  "note": "ECDSA and address derivation are oracles (what ecdsa.Verify answers is recorded, not proved); blocks not re-verified because their hash equals the host's block rely on SHA-256 collision resistance",
  "technique": "Coq proof (inversion of the three acceptance functions) + differential correspondence with single-field corruptions of valid inputs",
 },
 "C04": {
  "level": "Theorems over all histories (induction over reach): every chain a node holds satisfies, for each block after the first, link to the predecessor's hash, timestamp = predecessor + interval, exactly one reward, every ordinary transaction dated within [predecessor, block]; a replaced chain holds no new non-first block dated after the adopting node's clock. The edge the code leaves open (a tip dated 0 is taken for an empty chain) is exhibited as a refutation and excluded by hypothesis.",
  "ref": "DESIGN.md section 4, C04",
  "note": "hypotheses: fee >= 1, interval >= 0, injective H (SHA-256 collision resistance), aligned ticks, no tip dated 0; trusted: Coq kernel, extraction, harness",
  "technique": "Coq proof (invariant by induction over operation histories, inversion of verify/validate) + differential correspondence with one-rule-broken candidate chains",
 },
 "C07": {
  "level": "Theorem over all histories of production ticks, submissions, sync rounds against arbitrary neighbors and registry refreshes: the node's output registry is exactly the replay, from an empty state, of its chain minus the last block, and its registered set equals the replayed one; hence Utxos(a) and IsRegistered(a) agree for every address. Tied to the code by comparing the complete observable state with the model after every operation and by a model-free replay monitor.",
  "ref": "DESIGN.md section 4, C07",
  "note": "operation granularity; no neighbor is literally called \"host\"; trusted: Coq kernel, extraction, harness, oracles",
  "technique": "Coq proof (invariant by induction over reach, replay composition, unreachability of the failing-commit branch) + differential correspondence + replay monitor",
 },
 "C12": {
  "level": "Theorems: each operation leaves the chain unchanged, appends one block, or (sync round) either adopts a fully verified chain in a full re-sync or keeps everything below the tip untouched (prefix preservation); every reachable chain is hash-linked. Go slice aliasing has its own heap model (backing arrays, slice headers, in-place removal, append with growth): with copy-on-handover every chained block's removal list reads the same after any further operations and the heap node refines the functional node on every operation sequence; without it (the pinned tree) explicit runs change a chained block.",
  "ref": "DESIGN.md section 4, C12",
  "note": "the heap model covers the pending-removal slice (the one place the code edits in place); other slices are immutable after construction; trusted: Coq kernel, extraction, harness",
  "technique": "Coq proof (case analysis of step, invariant chain_linked over reach) + differential correspondence and hash re-observation monitor",
 },
 "C02": {
  "level": "Theorems over the registry model: a transaction naming one output twice can never be applied; a successfully applied block consumes pairwise distinct references, each spendable before the block or created earlier in it, and none is spendable afterwards; along a replayed chain with distinct transaction ids no reference is consumed twice and every consumed reference stays unspendable; from the empty state every input names an output created earlier in the chain. Admission refuses a transaction conflicting with the last block or the pool (proved under distinct ids; the hypothesis-free form is refuted by an id-reuse witness that content-hashed ids exclude).",
  "ref": "DESIGN.md section 4, C02",
  "note": "hypothesis: pairwise distinct transaction ids (content hashes, C15); same-block spends are accepted by the producer: known finding; trusted: Coq kernel, extraction, harness",
  "technique": "Coq proof (well-formedness invariant of the output registry, induction over blocks and chains) + differential correspondence with conflicting-spend histories and a consumed-reference monitor",
 },
 "C10": {
  "level": "Theorems: after every successfully applied block, along every replayed chain and in every reachable node no address owns two unspent yielding outputs; a block passes verification only if every yielding output of its ordinary transactions goes to an address registered in the state consulted or listed as newly registered by that block; a produced block lists every yielding recipient that is not already registered; addresses listed as removed (and not re-added by the same block) are not registered once the block is applied.",
  "ref": "DESIGN.md section 4, C10",
  "note": "the registry consulted by the verifier inside a batch is one block behind (C05 findings); proof-of-humanity is an oracle; trusted: Coq kernel, extraction, harness",
  "technique": "Coq proof (post-condition of UpdateUtxos' income test, invariant over reach, inversion of verifyBlock and of production) + differential correspondence with yielding-output patterns and registry refreshes",
 },
 "C13": {
  "level": "Theorems: (state) for every host state and every list of neighbor answers a sync round either returns the state unchanged or adopts a verified candidate, and all-failing neighbors are ignored; (fetch protocol) in the transition system of verifyNeighborBlockchain with a one-slot channel the fetcher never blocks on its send, every run has at most 5 steps and ends with the caller returned and the fetcher done for every answering behaviour, the caller returns at the latest at the timeout, and after a round of n neighbors no fetcher is live; the pinned tree's unbuffered double send is refuted by explicit runs; (time, abstract units) a round takes at most 2*n*timeout plus verification work. Wall-clock time and the goroutine count are measured on the implementation.",
  "ref": "DESIGN.md section 4, C13",
  "note": "partial on runtime aspects: scheduling and wall-clock are measured (monitor), not proved; a neighbor call that itself never returns keeps its goroutine until the transport times out",
  "technique": "Coq proof (finite LTS of the fetch protocol by exhaustive case analysis lifted to rounds by induction; inversion of update) + differential correspondence under a fault matrix + goroutine/time monitors",
 },
 "C16": {
  "level": "Generic theorems, proved once for any table: in an abstract reader/writer-mutex semantics with any number of threads, a lock held exclusively excludes every other holder; two accesses that share a lock, one of them exclusively, are never simultaneously enabled; if every racy pair of a table is in an excluded list then any two simultaneously enabled conflicting accesses are in that list; an acyclic lock-order graph yields a rank, and programs that acquire locks in increasing rank never deadlock (n threads). Two table theorems are re-checked on every run against the access table and lock-order edges regenerated from /repo's source: every racy pair is a listed known finding (only Engine.started remains), and the lock order is acyclic. The dynamic part runs the node's activities concurrently under the race detector and checks the quiescent state. Single-lock serializability is proved generically and instantiated on the pool: every interleaving of submissions and ticks equals a sequential order, and no admitted transaction is lost or duplicated. Interleavings between components: the three engine-driven operations are cut at their collaborator calls into a small machine (model/Interleave.v: V1..V4, A1..A4, U1..U3, one register per operation kind) whose steps may be interleaved arbitrarily; theorems: with fresh values the phase bodies are the atomic validate / pool_add / update; every schedule in which each chain-changing commit of a sync round finds no tick in flight or installs a tip dated at or after that tick (AddBlock then refuses the tick), and finds no submission in flight or one that has made all its reads (sched_ok'), ends in the state of a sequential history of the completed operations (linearisability), and so does every prefix: every intermediate state is reachable, so every invariant proved over reach (C01-C04, C07, C10, C12) holds at every moment of it; outside that condition the statement is refuted by a concrete schedule (the stale tick view, recorded as a known finding on the real code). The machine is tied to the code by the sweep suite (scheduler-controlled runs of two real operations replayed on it). Schedules finer than the machine (a call taking effect inside AddBlock or inside the commit) and registry refreshes are monitored only: partial.",
  "ref": "DESIGN.md section 4, C16",
  "note": "partial: lock discipline + deadlock freedom over an extracted table (sound relative to the translator's syntactic rules); operation-level interleavings proved linearisable at the granularity of collaborator calls under the no-replacement-in-flight condition (refuted without it: known finding); registry refreshes and reads inside AddBlock/commit are monitored only; Go memory model not formalised",
  "technique": "Coq proof (Eraser-style lock-discipline and lock-order theorems over an abstract mutex semantics) instantiated on a table regenerated from source by a go/ast translator + race-detector stress runs",
 },
 "C15": {
  "level": "Theorems over the model of the ledger codecs (encoding/json struct semantics on JSON trees, parametric in the hash): for outputs, inputs, input infos, utxos, transactions, blocks, requests and block lists, decoding the encoding of a well-formed value returns it; every successfully decoded value is well-formed, so re-encoding is a fixpoint (byte-stable) and the receiver hashes the same block bytes; a decoded transaction's id is the hash of its inputs, outputs and timestamp and any other id is rejected; the rendering of the id body is injective, so transactions differing in any of those fields have different ids or exhibit a hash collision; the endpoint table regenerated from source binds each of the seven endpoint names to the handler and client method it is named for.",
  "ref": "DESIGN.md section 4, C15",
  "note": "partial below the JSON tree (Go's lexer/printer are compared with the model byte for byte on generated values, not proved) and for the transport framing (exercised over loopback TCP); trusted: Coq kernel, extraction, OCaml JSON reader, harness",
  "technique": "Coq proof (round-trip, decoder image, injectivity of the printer on id bodies; finite table check on a regenerated table) + differential correspondence on bytes, hashes and decoder verdicts + real TCP round",
 },
 "C05": {
  "level": "Theorems: for blocks whose kept transactions spend only outputs found identically in the confirmed registry (no last-block or same-block spends), the block an honest producer appends on an aligned tick is accepted by `verify` as an extension of a peer holding the same chain, as a competitor to the peer's own tip (there even last-block spends are accepted), and in a full re-sync; fee computation depends on the registry only through the outputs the inputs denote. The three situations in which the pinned design makes honest peers reject an honest block are exhibited as reachable witnesses (last-block spend, same-block spend, yielding output to a just-removed address) and are known findings.",
  "ref": "DESIGN.md section 4, C05",
  "note": "hypotheses: aligned tick, fee >= 1, tip not dated 0, the producer can replay its own block (no id clash of the fresh reward transaction); the property as stated is refuted in three known situations (findings); trusted: Coq kernel, extraction, harness, oracles",
  "technique": "Coq proof (simulation producer => verifier for confirmed-only blocks, reachable refutation witnesses) + differential correspondence on three real peers per produced block",
 },
 "C14": {
  "level": "Theorems over the model in which every Go panic site is a value (Err (EPanic site)): for EVERY JSON tree delivered to the transaction endpoint, for every list of JSON trees answered by neighbors to the two sync requests, and then for ANY sequence of further wire operations, ticks and registry refreshes, no intermediate result (admission, production outcome and drop log, every verify call, every commit-loop update, the read-only endpoints under sane settings) is EPanic, the invariant 'every stored transaction has an output' is preserved, and a refused message leaves the node unchanged; null requests, null list elements, null blocks and transactions without outputs are rejected at decoding; the pinned tree's panic is exhibited (an empty outputs list reaches Outputs()[0]).",
  "ref": "DESIGN.md section 4, C14",
  "note": "partial below the JSON tree: Go's lexer, golang-p2p framing and gin are exercised by the crash suite (every schema position x 14 fault kinds, ids recomputed), not modelled; access-node division by a zero validation interval is a settings matter; trusted: Coq kernel, extraction, harness",
  "technique": "Coq proof (decoder image + invariant over arbitrary wire histories with panic sites as error values) + fault-matrix correspondence on the real handlers, sync round and access-node controllers",
 },
 "C08": {
  "level": "Paging theorems for all chains, heights and realistic page sizes (the uint64 wrap written out): a page is exactly the contiguous slice [h, min(h+limit, n)), never longer than the page size, empty iff h >= n or n = 0 or limit = 0, and concatenated pages rebuild the chain. Convergence theorems for every servable chain C (hash-linked, replayable, each block verifiable with the verifier's one-block lag, every block rewarded, tip not in the future), page size >= 3 and any non-empty set of neighbors that answer C's pages: one round from a prefix longer than two blocks adopts exactly limit-1 more blocks of C; one full round from a chain of one or two blocks adopts the first page; hence from a prefix of C or from a private chain of at most two blocks, every n >= 1 + ceil(|C|/(limit-1)) rounds end with exactly C and with the registers of C's replay, and between reachable nodes the node that caught up reports the same outputs and registrations as the serving node.",
  "ref": "DESIGN.md section 4, C08",
  "note": "hypotheses: sane page size (chain length + page <= 2^64), no neighbor called \"host\", a non-empty own chain (an empty node never syncs); a private chain longer than two blocks that is not a prefix is not covered by the theorem (the property allows it when shorter than the page size: measured by the catchup suite); trusted: Coq kernel, extraction, harness",
  "technique": "Coq proof (list/N arithmetic of paging; completeness of the verification loop on servable chains; measure argument over rounds) + differential correspondence and round counting on real nodes",
 },
}
