# manifest_text.py — the words MANIFEST.json carries per property
PENDING = {
 "C05": "the correspondence suite (accept) and its known findings exist, the theorem file props/C05.v is still being proved; claimed as soon as it compiles",
 "C14": "the correspondence suites (crash, chain, faults) exist, the theorem file props/C14.v is still being proved; claimed as soon as it compiles",
}
TEXT = {
 "C20": {
  "level": "Theorems over the integer-nanosecond model of engine.go for every period, sub-slot configuration and sequence of clock readings (no bound): a pulse fires with the next boundary of Go's time grid; every engine stamp is a multiple of the sub-period and stamps never decrease when the clock does not; in the stop protocol at most the call already in flight completes after Stop, for every schedule. The model is tied to the code by running the real Engine on scripted clocks and comparing every stamp.",
  "ref": "DESIGN.md section 4, C20",
  "note": "trusted: Coq kernel, extraction (ExtrOcamlBasic), harness; time.Ticker and goroutine scheduling are not modelled (readings served are the model's input); timestamps within int64 ns",
  "technique": "Coq proof (arithmetic lemmas + invariant of a small LTS) + differential correspondence with the real Engine",
 },
 "C11": {
  "level": "Theorems over the model of transactions_pool.go for all pools, chains, settings and shuffles: admission succeeds exactly when the transaction is dated in [last block, next block], is not pooled, has valid signatures and passes fee and application against confirmed outputs + last block + earlier pooled transactions, and then only appends it; a produced block is exactly the greedy sub-list of the shuffled pool plus one reward to the producer whose value is the add64-fold of the kept fees (never above the exact fees, equal below 2^64); refusals leave the node unchanged. Tied to the code by histories on the real pool with the shuffle recomputed from the same seed.",
  "ref": "DESIGN.md section 4, C11",
  "note": "trusted: Coq kernel, extraction, harness; oracles for ECDSA, address derivation, Utxo.Value; minimal fee >= 1; aligned ticks",
  "technique": "Coq proof (inversion and refinement of the production loop to a greedy specification) + differential correspondence on operation histories",
 },
 "C06": {
  "level": "Theorems over the model of Blockchain.Update for all host states, neighbor answers and tie-breaks: a replaced chain is a surviving candidate that came from a neighbor whose answer passed verify, is never shorter than the host's, is as long as the longest candidate, passes the half-of-the-candidates branch test, has maximal validator age among the survivors, and differs from the host's tip; in every other case the whole state is returned unchanged (the failing-commit branch is proved unreachable for verified candidates). Tied to the code by sync rounds of a real node against up to eight scripted neighbors.",
  "ref": "DESIGN.md section 4, C06",
  "note": "trusted: Coq kernel, extraction, harness; Go map iteration order is an input of the model; no neighbor is literally called \"host\"",
  "technique": "Coq proof (list lemmas on filters and a strict arg-max fold, case analysis of update) + differential correspondence on sync rounds",
 },
 "C08": {
  "level": "Paging theorems for all chains, heights and realistic page sizes (the uint64 wrap written out): a page is exactly the contiguous slice [h, min(h+limit, n)), never longer than the page size, empty iff h >= n or n = 0 or limit = 0, and concatenated pages rebuild the chain. Convergence theorems for every servable chain C (hash-linked, replayable, each block verifiable with the verifier's one-block lag, every block rewarded, tip not in the future), page size >= 3 and any non-empty set of neighbors that answer C's pages: one round from a prefix longer than two blocks adopts exactly limit-1 more blocks of C; one full round from a chain of one or two blocks adopts the first page; hence from a prefix of C or from a private chain of at most two blocks, every n >= 1 + ceil(|C|/(limit-1)) rounds end with exactly C and with the registers of C's replay, and between reachable nodes the node that caught up reports the same outputs and registrations as the serving node.",
  "ref": "DESIGN.md section 4, C08",
  "note": "hypotheses: sane page size (chain length + page <= 2^64), no neighbor called \"host\", a non-empty own chain (an empty node never syncs); a private chain longer than two blocks that is not a prefix is not covered by the theorem (the property allows it when shorter than the page size: measured by the catchup suite); trusted: Coq kernel, extraction, harness",
  "technique": "Coq proof (list/N arithmetic of paging; completeness of the verification loop on servable chains; measure argument over rounds) + differential correspondence and round counting on real nodes",
 },
 "C10": {
  "level": "Theorems: after every successfully applied block, along every replayed chain and in every reachable node no address owns two unspent yielding outputs; a block passes verification only if every yielding output of its ordinary transactions goes to an address registered in the state consulted or listed as newly registered by that block; a produced block lists every yielding recipient that is not already registered; addresses listed as removed (and not re-added by the same block) are not registered once the block is applied.",
  "ref": "DESIGN.md section 4, C10",
  "note": "the registry consulted by the verifier inside a batch is one block behind (C05 findings); proof-of-humanity is an oracle; trusted: Coq kernel, extraction, harness",
  "technique": "Coq proof (post-condition of UpdateUtxos' income test, invariant over reach, inversion of verifyBlock and of production) + differential correspondence with yielding-output patterns and registry refreshes",
 },
 "C13": {
  "level": "Theorems: (state) for every host state and every list of neighbor answers a sync round either returns the state unchanged or adopts a verified candidate, and all-failing neighbors are ignored; (fetch protocol) in the transition system of verifyNeighborBlockchain with a one-slot channel the fetcher never blocks on its send, every run has at most 5 steps and ends with the caller returned and the fetcher done for every answering behaviour, the caller returns at the latest at the timeout, and after a round of n neighbors no fetcher is live; the pinned tree's unbuffered double send is refuted by explicit runs; (time, abstract units) a round takes at most 2*n*timeout plus verification work. Wall-clock time and the goroutine count are measured on the implementation.",
  "ref": "DESIGN.md section 4, C13",
  "note": "partial on runtime aspects: scheduling and wall-clock are measured (monitor), not proved; a neighbor call that itself never returns keeps its goroutine until the transport times out",
  "technique": "Coq proof (finite LTS of the fetch protocol by exhaustive case analysis lifted to rounds by induction; inversion of update) + differential correspondence under a fault matrix + goroutine/time monitors",
 },
 "C16": {
  "level": "Generic theorems, proved once for any table: in an abstract reader/writer-mutex semantics with any number of threads, a lock held exclusively excludes every other holder; two accesses that share a lock, one of them exclusively, are never simultaneously enabled; if every racy pair of a table is in an excluded list then any two simultaneously enabled conflicting accesses are in that list; an acyclic lock-order graph yields a rank, and programs that acquire locks in increasing rank never deadlock (n threads). Two table theorems are re-checked on every run against the access table and lock-order edges regenerated from /repo's source: every racy pair is a listed known finding (only Engine.started remains), and the lock order is acyclic. The dynamic part runs the node's activities concurrently under the race detector and checks the quiescent state. Operation-level interleavings are not covered by a theorem: partial.",
  "ref": "DESIGN.md section 4, C16",
  "note": "partial: lock discipline + deadlock freedom over an extracted table (sound relative to the translator's syntactic rules); no theorem about stale reads across lock releases; Go memory model not formalised",
  "technique": "Coq proof (Eraser-style lock-discipline and lock-order theorems over an abstract mutex semantics) instantiated on a table regenerated from source by a go/ast translator + race-detector stress runs",
 },
 "C15": {
  "level": "Theorems over the model of the ledger codecs (encoding/json struct semantics on JSON trees, parametric in the hash): for outputs, inputs, input infos, utxos, transactions, blocks, requests and block lists, decoding the encoding of a well-formed value returns it; every successfully decoded value is well-formed, so re-encoding is a fixpoint (byte-stable) and the receiver hashes the same block bytes; a decoded transaction's id is the hash of its inputs, outputs and timestamp and any other id is rejected; the rendering of the id body is injective, so transactions differing in any of those fields have different ids or exhibit a hash collision; the endpoint table regenerated from source binds each of the seven endpoint names to the handler and client method it is named for.",
  "ref": "DESIGN.md section 4, C15",
  "note": "partial below the JSON tree (Go's lexer/printer are compared with the model byte for byte on generated values, not proved) and for the transport framing (exercised over loopback TCP); trusted: Coq kernel, extraction, OCaml JSON reader, harness",
  "technique": "Coq proof (round-trip, decoder image, injectivity of the printer on id bodies; finite table check on a regenerated table) + differential correspondence on bytes, hashes and decoder verdicts + real TCP round",
 },
 "C05": {
  "level": "Theorems: for blocks whose kept transactions spend only outputs found identically in the confirmed registry (no last-block or same-block spends), the block an honest producer appends on an aligned tick is accepted by `verify` as an extension of a peer holding the same chain, as a competitor to the peer's own tip (there even last-block spends are accepted), and in a full re-sync; fee computation depends on the registry only through the outputs the inputs denote. The three situations in which the pinned design makes honest peers reject an honest block are exhibited as reachable witnesses (last-block spend, same-block spend, yielding output to a just-removed address) and are known findings.",
  "ref": "DESIGN.md section 4, C05",
  "note": "hypotheses: aligned tick, fee >= 1, tip not dated 0, the producer can replay its own block (no id clash of the fresh reward transaction); the property as stated is refuted in three known situations (findings); trusted: Coq kernel, extraction, harness, oracles",
  "technique": "Coq proof (simulation producer => verifier for confirmed-only blocks, reachable refutation witnesses) + differential correspondence on three real peers per produced block",
 },
 "C14": {
  "level": "Theorems over the model in which every Go panic site is a value (Err (EPanic site)): for EVERY JSON tree delivered to the transaction endpoint, for every list of JSON trees answered by neighbors to the two sync requests, and then for ANY sequence of further wire operations, ticks and registry refreshes, no intermediate result (admission, production outcome and drop log, every verify call, every commit-loop update, the read-only endpoints under sane settings) is EPanic, the invariant 'every stored transaction has an output' is preserved, and a refused message leaves the node unchanged; null requests, null list elements, null blocks and transactions without outputs are rejected at decoding; the pinned tree's panic is exhibited (an empty outputs list reaches Outputs()[0]).",
  "ref": "DESIGN.md section 4, C14",
  "note": "partial below the JSON tree: Go's lexer, golang-p2p framing and gin are exercised by the crash suite (every schema position x 14 fault kinds, ids recomputed), not modelled; access-node division by a zero validation interval is a settings matter; trusted: Coq kernel, extraction, harness",
  "technique": "Coq proof (decoder image + invariant over arbitrary wire histories with panic sites as error values) + fault-matrix correspondence on the real handlers, sync round and access-node controllers",
 },
}
