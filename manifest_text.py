# manifest_text.py — the words MANIFEST.json carries per property
PENDING = {}
TEXT = {
 "C20": {
  "level": "Theorems over the integer-nanosecond model of engine.go for every period, sub-slot configuration and sequence of clock readings (no bound): a pulse fires with the next boundary of Go's time grid; every engine stamp is a multiple of the sub-period and stamps never decrease when the clock does not; in the stop protocol at most the call already in flight completes after Stop, for every schedule. The model is tied to the code by running the real Engine on scripted clocks and comparing every stamp.",
  "ref": "DESIGN.md section 4, C20",
  "note": "trusted: Coq kernel, extraction (ExtrOcamlBasic), harness; time.Ticker and goroutine scheduling are not modelled (readings served are the model's input); timestamps within int64 ns",
  "technique": "Coq proof (arithmetic lemmas + invariant of a small LTS) + differential correspondence with the real Engine",
 },
}
