#!/usr/bin/env python3
"""run.py <property id> quick|thorough  — one check of one property.

Steps (DESIGN.md section 1.4):
  1. regenerate the table translators' output from /repo (properties that have one)
  2. full Coq build; hygiene gate; coqc of props/<id>.v -> Print Assumptions
  3. build the Go harness against /repo's working tree, run the property's suites (corpus first)
  4. evaluate the extracted model on the same cases; collect correspondence mismatches
  5. property monitors' hits on the implementation's traces = failing-input search
  6. known findings; VIOLATION / KNOWN-FINDING lines; evidence/<id>.json
Exit 0 = property held on everything explored; 1 = violation; 2+ = machinery failure.
"""
import json, os, re, subprocess, sys, time, glob, shutil, hashlib
from concurrent.futures import ThreadPoolExecutor

ROOT = os.path.dirname(os.path.abspath(__file__))
os.chdir(ROOT)
ENV = dict(os.environ, GOFLAGS="-mod=mod", GOPROXY="off", GOSUMDB="off", GOTOOLCHAIN="local")

sys.path.insert(0, ROOT)
from checks import CHECKS, SUITE_DEPENDS  # per-property configuration


def sh(cmd, timeout=3600, cwd=None, env=None):
    p = subprocess.run(cmd, shell=True, cwd=cwd, env=env or ENV, stdout=subprocess.PIPE, stderr=subprocess.STDOUT,
                       timeout=timeout, text=True, errors="replace")
    out = "\n".join(l for l in p.stdout.splitlines() if "WARNING: overwriting environment" not in l)
    return p.returncode, out


# what each suite must at least bring about, per generated case (substring of a histogram key, minimum
# occurrences per case); far below what the unchanged tree gives, so that only a collapse trips it
SUITE_EXPECTS = {
    "wallet": [("status=200", 0.25), ("included=true", 0.15)],
    "views": [("amount/fail=false/status=200", 0.5), ("progress/", 0.5)],
    "chain": [("validate/aligned=produce", 1.0), ("=ok", 1.0)],
    "accept": [("accept/extension/", 0.2), ("accept/resync/", 0.2)],
    "forks": [("=replaced", 0.2)],
    "catchup": [("catchup/", 0.5)],
    "sweep": [("U=replaced", 0.1), ("V=produced", 0.1)],
    "place": [("place/", 0.5)],
}

# what a suite may at most see per case (a tolerated disturbance that must stay rare)
SUITE_LIMITS = {
    "faults": [("late answer of a well-behaved neighbor", 0.25)],
}


def known_findings():
    fnd, fixed = [], []
    path = os.path.join(ROOT, "KNOWN_FINDINGS.txt")
    if os.path.exists(path):
        for line in open(path, errors="replace"):
            line = line.strip()
            m = re.match(r"finding: property=(\S+) key=(\S+) (.*)", line)
            if m:
                fnd.append((m.group(1), m.group(2), m.group(3)))
            m = re.match(r"fixed: property=(\S+) (\S+) (.*)", line)
            if m:
                fixed.append((m.group(1), m.group(2), m.group(3)))
    return fnd, fixed


def main():
    if len(sys.argv) < 3:
        print(__doc__)
        sys.exit(2)
    pid, tier = sys.argv[1], sys.argv[2]
    cfg = CHECKS[pid]
    seed = int(os.environ.get("VERIF_SEED", "1") or "1")
    t_start = time.time()
    work = os.path.join(ROOT, "work", pid + "_" + tier)
    shutil.rmtree(work, ignore_errors=True)
    os.makedirs(work, exist_ok=True)
    os.makedirs(os.path.join(ROOT, "evidence"), exist_ok=True)
    violations = []      # (key, replay path, found_input: bool, text)
    known_lines = []
    notes = []
    fnd, fixed = known_findings()
    known_keys = {k: txt for (p, k, txt) in fnd if p == pid}

    def replay_file(name, text):
        path = os.path.join(work, "replay_" + re.sub(r"[^A-Za-z0-9_.-]", "_", name) + ".txt")
        with open(path, "w", errors="replace") as f:
            f.write(text)
        return path

    # ---- 1. translators ------------------------------------------------------------------
    for gen in cfg.get("translators", []):
        rc, out = sh(gen, timeout=600)
        if rc != 0:
            violations.append(("translator", replay_file("translator", out), False,
                               "table translator failed on the current source: " + gen))

    for pre in cfg.get("pre_cmds", []):
        rcp, outp = sh(pre, timeout=1800)
        if rcp != 0:
            print(outp[-3000:])
            violations.append(("pre", replay_file("pre", outp), False, "preparation step failed: " + pre))

    # ---- 2. Coq ----------------------------------------------------------------------------
    rc, out = sh("./build.sh all", timeout=3400)
    build_ok = rc == 0
    if rc == 5:
        violations.append(("translator", replay_file("translator", out), False, "a table translator failed on the current source"))
    if rc == 4:
        print(out)
        print("the Go harness does not build against /repo's current tree")
    obligations, discharged, assumptions_text, theorem_names = 0, 0, "", []
    props_files = sorted(glob.glob(os.path.join("coq", "props", pid + ".v")) + glob.glob(os.path.join("coq", "props", pid + "_*.v")))
    # theorems of another property's file that this property's statement leans on (e.g. the
    # admission clause of C02 under concurrent submissions needs the one-episode atomicity table)
    props_files += [os.path.join("coq", "props", f) for f in cfg.get("also_props", [])]
    src = "\n".join(open(f).read() for f in props_files)
    theorem_names = re.findall(r"^\s*(?:Theorem|Corollary)\s+(\w+)", src, flags=re.M)
    obligations = len(theorem_names)
    hygiene = coq_hygiene()
    if build_ok and src:
        for pf in props_files:
            # compile to a private output file: other checks may be building in coq/ at the same time
            priv = os.path.join(work, os.path.basename(pf)[:-2] + ".vo")
            rc2, out2 = sh("cd coq && timeout 1500 coqc -Q . RV -o %s %s" % (priv, os.path.relpath(pf, "coq")), timeout=1600)
            assumptions_text += out2 + "\n"
            if rc2 == 0:
                discharged += len(re.findall(r"Closed under the global context|^Axioms:", out2, flags=re.M))
            else:
                build_ok = False
                out = out2
                break
        discharged = min(discharged, obligations)
    if not build_ok and rc != 4:
        # which theorem broke: the first Error location
        m = re.search(r'File "([^"]+)", line (\d+)', out)
        where = ("%s line %s" % (m.group(1), m.group(2))) if m else "coq build"
        extra = ""
        if cfg.get("lockset_query"):
            qf = os.path.join(work, "lockset_query.v")
            open(qf, "w").write("From RV Require Import model.Base model.Lockset gen.Lockset_gen gen.Known_gen.\n"
                                "Eval vm_compute in filter (fun k => negb (mem_str k known_race_keys)) (map race_key (race_pairs table)).\n"
                                "Eval vm_compute in acyclic lock_edges.\n"
                                "Eval vm_compute in filter (fun r => negb (row_atomic field_sections r)) atomic_spec.\n")
            sh("cd coq && coqc -Q . RV model/Lockset.v && coqc -Q . RV gen/Lockset_gen.v && coqc -Q . RV gen/Known_gen.v", timeout=600)
            rq, oq = sh("coqc -Q coq RV %s" % qf, timeout=600)
            extra = "\n\nRacy pairs of the regenerated access table that are not known findings, and acyclicity of the lock order:\n" + oq
            newkeys = re.findall(r'"(race:[^"]+)"', oq)
            for nk in newkeys:
                violations.append((nk, replay_file("lockset_" + nk, "Unprotected conflicting accesses in the current source (table regenerated by tools/genlockset):\n" + nk + extra), True,
                                   "lock discipline broken: " + nk))
            for (e_, f_) in re.findall(r'\("([A-Za-z.]+)",\s*"([A-Za-z.]+)"\)', oq.split("acyclic")[-1] if False else oq.split(": bool")[-1]):
                violations.append(("atomicity:%s:%s" % (e_, f_), replay_file("atomic_%s_%s" % (e_, f_), "In the current source %s no longer touches %s within one locked episode of its component (table regenerated by tools/genlockset): an operation placed between its critical sections can observe or destroy intermediate state.%s" % (e_, f_, extra)), True,
                                   "atomicity broken: %s on %s" % (e_, f_)))
            if "= false" in oq:
                violations.append(("lock-order-cycle", replay_file("lockorder", "The lock acquisition order extracted from the current source has a cycle." + extra), True, "lock order is cyclic"))
        violations.append(("proof", replay_file("proof", "The Coq development no longer checks (%s).\n\n%s%s" % (where, out[-6000:], extra)), False,
                           "proof obligation no longer checks: " + where))
    if hygiene:
        violations.append(("hygiene", replay_file("hygiene", hygiene), False, "forbidden declaration in the development"))
    own_axioms = sorted(set(re.findall(r"^(\w[\w.]*)\s*:", assumptions_text, flags=re.M)) - {"Axioms"})

    # ---- 3/4. harness + model ------------------------------------------------------------------
    hist, samples, total_cases, total_ops, distinct, mismatches, oracle_miss = {}, [], 0, 0, 0, [], []
    per_suite = {}
    suites_run = []
    harness_ok = os.path.exists("bin/rvharness") and os.path.exists("bin/modelrun") and rc != 4
    if not harness_ok and rc == 4:
        violations.append(("harness-build", replay_file("gobuild", out), False, "harness does not build against the current tree"))
    jobs = []
    if harness_ok:
        for s in cfg["suites"]:
            n = s["n_" + tier] if ("n_" + tier) in s else s["n_quick"]
            shards = s.get("shards_" + tier, s.get("shards", 8))
            per = max(1, n // shards)
            for i in range(shards):
                name = "%s_%s_%d" % (s["suite"], s.get("mode", "x"), i)
                cmd = "%s %s -seed %d -n %d -out %s -name %s %s" % (
                    s.get("bin", "./bin/rvharness"), s["suite"], seed * 1000 + i * 7 + s.get("seed_off", 0), per, work, name, s.get("args", ""))
                jobs.append((s, name, cmd))
        # corpus: minimised failing cases found earlier, run first
        corpus = sorted(glob.glob(os.path.join(ROOT, "corpus", pid, "*.cases")))

        def run_job(job):
            s, name, cmd = job
            rc, out = sh("timeout %d %s" % (s.get("timeout", 1500), cmd), timeout=s.get("timeout", 1500) + 60)
            if s.get("race") and rc in (0, 66):
                # the Go race detector reports on stderr and makes the process exit with 66
                return (s, name, 0, out, "")
            if rc != 0:
                return (s, name, rc, out, "")
            ev = s.get("eval", "./bin/modelrun {cases}").format(cases="%s/%s.cases" % (work, name), work=work)
            rc2, out2 = sh("timeout 1500 " + ev, timeout=1600)
            return (s, name, rc2, out, out2)

        with ThreadPoolExecutor(max_workers=int(os.environ.get("VERIF_JOBS", "8"))) as ex:
            results = list(ex.map(run_job, jobs))
        for c in corpus:
            rc2, out2 = sh("timeout 600 ./bin/modelrun %s" % c, timeout=700)
            results.append(({"suite": "corpus", "corpus": True}, os.path.basename(c), rc2, "", out2))
        for (s, name, rcj, hout, mout) in results:
            suites_run.append(name)
            if s.get("race"):
                for blk in re.findall(r"WARNING: DATA RACE\n(.*?)\n==================", hout, flags=re.S):
                    fns = re.findall(r"^  (github\.com/my-cloud/ruthenium/[^\s(]+(?:\(\*?\w+\))?[.\w]*)\(", blk, flags=re.M)
                    tops = []
                    for part in re.split(r"\n\n", blk)[:2]:
                        m = re.search(r"^  (github\.com/my-cloud/ruthenium/\S+?)\(\)?", part, flags=re.M)
                        if m:
                            tops.append(m.group(1).split("/")[-1])
                    key = "dynrace:" + "|".join(sorted(set(tops))) if tops else "dynrace:unknown"
                    violations.append((key, replay_file("race_%s_%d" % (name, len(violations)), "go test -race style report from suite %s:\n\nWARNING: DATA RACE\n%s\n" % (name, blk)), True,
                                       "the race detector reports a data race between %s" % " and ".join(sorted(set(tops)) or ["?"])))
            if rcj != 0:
                # a crash of the harness is itself a finding candidate (e.g. the node panicked)
                key = "harness-crash"
                m = re.search(r"panic: (.*)", hout + mout)
                violations.append((key, replay_file("crash_" + name, (hout + "\n" + mout)[-8000:]), bool(m),
                                   "the run of suite %s did not complete: %s" % (name, m.group(1) if m else "exit %d" % rcj)))
                continue
            for line in mout.splitlines():
                if line.startswith("OK "):
                    continue
                if line.startswith("MISMATCH"):
                    mismatches.append((name, line))
                elif line.startswith("ORACLEMISS"):
                    oracle_miss.append((name, line))
                elif line.strip():
                    mismatches.append((name, "DRIVER " + line))
            st = os.path.join(work, name + ".stats.json")
            if os.path.exists(st):
                d = json.load(open(st, errors="replace"))
                total_cases += d["cases"]
                total_ops += d["ops"]
                distinct += d["distinct_nontrivial"]
                for h in d["histogram"]:
                    hist[h["k"]] = hist.get(h["k"], 0) + h["n"]
                if not s.get("corpus"):
                    ps = per_suite.setdefault(s["suite"], {"cases": 0, "hist": {}})
                    ps["cases"] += d["cases"]
                    for h in d["histogram"]:
                        ps["hist"][h["k"]] = ps["hist"].get(h["k"], 0) + h["n"]
                if len(samples) < 3:
                    samples += d["samples"][:1]
            # 5. monitor hits for this property
            vf = os.path.join(work, name + ".violations")
            if os.path.exists(vf):
                for line in open(vf, errors="replace"):
                    parts = line.rstrip("\n").split("\t")
                    if len(parts) >= 3 and parts[0] in cfg.get("monitor_props", [pid]):
                        key = parts[2] if len(parts) > 3 else "monitor"
                        what = parts[3] if len(parts) > 3 else parts[2]
                        violations.append((key, None, True, "case %s of %s: %s" % (parts[1], name, what), (name, parts[1])))
    if oracle_miss:
        # the implementation showed the model a signature, key or value that the harness never built
        # nor noted (none occurs on the unchanged tree): that history cannot be compared any further
        notes.append("oracle table misses: %d" % len(oracle_miss))
        name, line = oracle_miss[0]
        parts = line.split(" ", 3)
        cid = parts[1] if len(parts) > 1 else "?"
        path = replay_file("oracle_miss_%s_%s" % (name, cid),
                           "Correspondence obligation broken: the implementation presented a value (signature, public key, output value) that is in none of the oracle tables recorded for this history, so the model cannot follow it.\n"
                           "suite shard %s\n%s\n(%d such histories)\n\ncase:\n%s\n" % (name, line, len(oracle_miss), extract_case(work, name, cid)))
        violations.append(("oracle-miss", path, False,
                           "%d histories show the model a value outside the recorded oracle tables (first: case %s of %s: %s)" % (len(oracle_miss), cid, name, parts[3] if len(parts) > 3 else "")))

    # a suite whose generated situations collapse (its set-up no longer goes through on this tree)
    # shows nothing: the property is then no longer shown to hold on that suite
    for sname, ps in sorted(per_suite.items()):
        for (sub, per_case) in SUITE_EXPECTS.get(sname, []):
            got = sum(n for k, n in ps["hist"].items() if sub in k)
            need = per_case * ps["cases"]
            if ps["cases"] >= 16 and got < need:
                path = replay_file("coverage_%s" % sname,
                                   "Suite %s: the situations it exists to generate did not come about on this tree.\n"
                                   "histogram keys containing %r: %d occurrences in %d cases (at least %.1f expected).\n"
                                   "The suite's set-up uses the node itself (blocks are produced, transactions admitted and confirmed by the code under test);\n"
                                   "when that fails the comparison has nothing to compare.\n\nhistogram:\n%s\n" %
                                   (sname, sub, got, ps["cases"], need, "\n".join("%6d %s" % (n, k) for k, n in sorted(ps["hist"].items()))))
                violations.append(("coverage-collapse:" + sname, path, False,
                                   "suite %s generated %d occurrences of %r in %d cases (at least %.0f expected): its set-up no longer goes through" % (sname, got, sub, ps["cases"], need)))

        for (sub, per_case) in SUITE_LIMITS.get(sname, []):
            got = sum(n for k, n in ps["hist"].items() if sub in k)
            if ps["cases"] >= 16 and got > per_case * ps["cases"]:
                path = replay_file("disturbance_%s" % sname,
                                   "Suite %s: %d occurrences of %r in %d cases (at most %.1f tolerated).\n"
                                   "Answers of well-behaved neighbors reach the node after its per-neighbor timeout far more often than machine load explains:\n"
                                   "the model was told these fetches failed, so the rounds concerned were compared under that assumption only.\n" % (sname, got, sub, ps["cases"], per_case * ps["cases"]))
                violations.append(("coverage-collapse:" + sname, path, False,
                                   "suite %s saw %d occurrences of %r in %d cases (at most %.0f tolerated)" % (sname, got, sub, ps["cases"], per_case * ps["cases"])))

    # correspondence mismatches that concern this property's model functions
    relevant_kinds = cfg.get("mismatch_kinds")
    for (name, line) in mismatches:
        parts = line.split(" ", 3)
        cid = parts[1] if len(parts) > 1 else "?"
        opi = parts[2] if len(parts) > 2 else "?"
        kind = op_kind(work, name, cid, opi)
        if relevant_kinds is not None and kind is not None and kind.split(":")[0] not in relevant_kinds:
            # the comparison of a history stops at its first disagreement: when operations this
            # property's theorems speak about come later in the same history, they were not compared,
            # so the tie between model and code is no longer shown for them
            later = later_kinds(work, name, cid, opi)
            cut = sorted(set(k for k in later if k in relevant_kinds))
            if not cut:
                notes.append("correspondence mismatch on a %s operation (not used by this property's theorems, none of which follows in that history): %s %s" % (kind, name, cid))
                continue
            godig = go_digest(work, name, cid, opi)
            path = replay_file("mismatch_upstream_%s_%s" % (name, cid),
                               "Correspondence obligation broken upstream: model and implementation disagree on a %s operation, and the %s operation(s) that follow in this history could not be compared.\n"
                               "suite shard %s, case %s, operation #%s\nmodel: %s\nimplementation: %s\n\ncase:\n%s\n" %
                               (kind, "/".join(cut), name, cid, opi, line, godig, extract_case(work, name, cid)))
            violations.append(("mismatch-upstream:" + kind.split(":")[0], path, False,
                               "model and implementation disagree on case %s op %s (%s), before its %s operation(s) could be compared" % (cid, opi, kind, "/".join(cut))))
            continue
        godig = go_digest(work, name, cid, opi)
        case_text = extract_case(work, name, cid)
        path = replay_file("mismatch_%s_%s" % (name, cid),
                           "Correspondence obligation broken: model and implementation disagree.\n"
                           "suite shard %s, case %s, operation #%s (%s)\nmodel: %s\nimplementation: %s\n\ncase:\n%s\n" %
                           (name, cid, opi, kind, line, godig, case_text))
        violations.append(("mismatch:" + (kind or "?").split(":")[0], path, False,
                           "model and implementation disagree on case %s op %s (%s)" % (cid, opi, kind)))

    # ---- 6. verdict ----------------------------------------------------------------------------------
    # a monitor hit is a concrete failing input; attach a replay (the case) to it
    final = []
    seen_known = set()
    have_input = any(v[2] for v in violations)
    for v in violations:
        key, path, found, text = v[0], v[1], v[2], v[3]
        if key in known_keys:
            if key not in seen_known:
                seen_known.add(key)
                known_lines.append("KNOWN-FINDING: property=%s %s [%s]" % (pid, known_keys[key], text))
            continue
        if path is None and len(v) > 4:
            name, cid = v[4]
            path = replay_file("violation_%s_%s_%s" % (key, name, cid), text + "\n\ncase:\n" + extract_case(work, name, cid))
        final.append((key, path, found, text))
    # de-duplicate by key, keep the first
    dedup, seenk = [], set()
    for f in final:
        if f[0] in seenk:
            continue
        seenk.add(f[0])
        dedup.append(f)
    # if a concrete failing input exists, obligations that merely broke are subsumed by it
    concrete = [f for f in dedup if f[2]]
    report = concrete if concrete else dedup
    for l in known_lines:
        print(l)
    for (key, path, found, text) in report:
        tail = "" if found else " no-failing-input-found"
        print("VIOLATION property=%s replay=%s%s" % (pid, path, tail))
        print("  (%s) %s" % (key, text))
    for n_ in notes[:10]:
        print("note: " + n_)

    wall = time.time() - t_start
    ev = {
        "property_id": pid, "tier": tier, "seed": seed, "level": "proof",
        "coverage": {
            "obligations": obligations, "discharged": discharged,
            "checker_cmd": "coq_makefile -f coq/_CoqProject && make (full .vo, Coq 8.16.1); coqc -Q coq RV coq/props/%s.v" % pid,
            "trusted_base": cfg.get("trusted_base", []) + COMMON_TRUSTED,
            "theorems": theorem_names,
            "print_assumptions": assumptions_text.strip().splitlines()[-(2 * max(1, obligations)):],
            "axioms_used": own_axioms,
            "evaluations": total_cases, "operations": total_ops,
            "distinct_nontrivial": distinct,
            "rule": cfg.get("rule", ""),
            "samples": samples or ["(no generated cases in this run)"],
            "traces_validated_against_impl": total_cases,
            "correspondence_mismatches": len(mismatches),
            "input_distribution": dict(sorted(hist.items())),
            "suites": suites_run,
            "known_findings_seen": sorted(seen_known),
        },
        "assumptions": cfg.get("assumptions", []),
        "wall_s": round(wall, 1),
        "violations": len(report),
    }
    with open(os.path.join(ROOT, "evidence", pid + ".json"), "w") as f:
        json.dump(ev, f, indent=1)
    print("%s %s: theorems %d/%d, cases %d (ops %d), mismatches %d, violations %d, known %d, %.0fs" % (
        pid, tier, discharged, obligations, total_cases, total_ops, len(mismatches), len(report), len(seen_known), wall))
    sys.exit(1 if report else 0)


COMMON_TRUSTED = [
    "Coq 8.16.1 kernel (coqc/coqchk); vm_compute only inside finite-table theorems and Examples; no native_compute",
    "extraction to OCaml with ExtrOcamlBasic only (its Extract Inductive for bool, option, unit, list, prod, sumbool, comparison); N, Z, positive, nat, string, ascii stay Coq datatypes; no Extract Constant",
    "OCaml glue ocaml/sx.ml + ocaml/driver.ml (S-expression reader, number/string conversions via zarith, digest printer, oracle tables)",
    "Go harness /verif/harness (fake peers, scripted clock and proof-of-humanity service, capturing logger, error-text to enum table)",
    "oracles (Section variables): ECDSA verification, address derivation, Utxo.Value in binary64, SHA-256 (Gallina re-implementation cross-checked with crypto/sha256 through every block hash and transaction id)",
]


def strip_comments(src):
    out, depth, i = [], 0, 0
    while i < len(src):
        if src.startswith("(*", i):
            depth += 1
            i += 2
        elif src.startswith("*)", i) and depth > 0:
            depth -= 1
            i += 2
        else:
            if depth == 0:
                out.append(src[i])
            elif src[i] == "\n":
                out.append("\n")
            i += 1
    return "".join(out)


def coq_hygiene():
    """No Admitted/admit/Axiom/Parameter/Conjecture, no Variable/Hypothesis outside a Section,
    no switched-off kernel checks, anywhere in the development."""
    bad = []
    for path in sorted(glob.glob(os.path.join(ROOT, "coq", "**", "*.v"), recursive=True)):
        depth = 0
        # the plain substring search a reader would run, comments included
        for ln, line in enumerate(open(path).read().splitlines(), 1):
            if re.search(r"Admitted|admit|Axiom|Parameter|Conjecture|Unset Guard|bypass_check", line):
                bad.append("%s:%d: %s" % (os.path.relpath(path, ROOT), ln, line.strip()))
        for ln, line in enumerate(strip_comments(open(path).read()).splitlines(), 1):
            if re.match(r"\s*Section\b", line):
                depth += 1
            if re.match(r"\s*End\b", line) and depth > 0:
                depth -= 1
            if re.search(r"\b(Admitted|admit|Axiom|Axioms|Parameter|Parameters|Conjecture|Admit Obligations)\b", line) or \
               re.search(r"Unset Guard|bypass_check|type-in-type|impredicative-set|Unset Universe Checking|Unset Positivity", line) or \
               (depth == 0 and re.match(r"\s*(Variable|Variables|Hypothesis|Hypotheses|Context)\b", line)):
                bad.append("%s:%d: %s" % (os.path.relpath(path, ROOT), ln, line.strip()))
    return "\n".join(bad)


def extract_case(work, name, cid):
    path = os.path.join(work, name + ".cases")
    if not os.path.exists(path):
        return "(case file missing)"
    for line in open(path, errors="replace"):
        if re.match(r"\(\w+ %s[ )]" % re.escape(cid), line):
            return line if len(line) < 400000 else line[:400000] + "…"
    return "(case not found)"


def go_digest(work, name, cid, opi):
    path = os.path.join(work, name + ".digests")
    if os.path.exists(path):
        pref = "%s %s " % (cid, opi)
        for line in open(path, errors="replace"):
            if line.startswith(pref):
                return line.strip()
    return "(no digest)"


def later_kinds(work, name, cid, opi):
    """kinds of the operations that follow operation opi in the history cid"""
    path = os.path.join(work, name + ".digests")
    out = []
    try:
        k0 = int(opi)
    except ValueError:
        return out
    if os.path.exists(path):
        pref = cid + " "
        for line in open(path, errors="replace"):
            if line.startswith(pref):
                parts = line.split(" ")
                try:
                    if int(parts[1]) > k0 and len(parts) > 2:
                        out.append(parts[2].split(":")[0])
                except ValueError:
                    pass
    return out


def op_kind(work, name, cid, opi):
    d = go_digest(work, name, cid, opi)
    parts = d.split(" ")
    return parts[2] if len(parts) > 2 else None


if __name__ == "__main__":
    main()
