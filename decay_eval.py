#!/usr/bin/env python3
"""decay_eval.py <cases file> <work dir> [jobs] — correspondence evaluator of C09.

Every (decaycase id yielding y x h B L value slack) line is turned into a Coq goal over the
real model (model/DecayR.v): value - slack <= G|F y x h B L < value + slack + 1, which the
interval tactic either proves (rigorous enclosure, 120 bits) or not. Prints OK/MISMATCH lines
in the format of bin/modelrun."""
import os, re, subprocess, sys
from concurrent.futures import ThreadPoolExecutor

HEAD = """From Coq Require Import Reals Lra ZArith Lia.
From Interval Require Import Tactic.
From RV Require Import model.DecayR proofs.DecayR_lemmas proofs.DecayR_formula.
Local Open Scope R_scope.
Ltac params h B L := apply (params_ok_int h B L); [lra | lia].
Ltac unk B L := rewrite (k2_formula (IZR B) (IZR L)) by lra; rewrite !(k1_eq (IZR B) (IZR L)) by lra.
Ltac g_pos h B L := rewrite G_formula_pos by (params h B L || lra); unk B L.
Ltac g_zero h B L := rewrite G_formula_zero by (params h B L || lra); unk B L.
Ltac g_gt := rewrite G_gt_eq by lra.
Ltac g_eq := rewrite G_eq_L.
"""


def goal(case):
    cid, yld, y, x, h, B, L, v, s = case
    lo, hi = v - s, v + s + 1
    if yld:
        expr = "G %d %d %d %d %d" % (y, x, h, B, L)
        if y == L:
            tac = "g_eq; lra"
        elif y > L:
            tac = "g_gt; split; interval with (i_prec 120)"
        elif y == 0:
            tac = "g_zero %d %d%%Z %d%%Z; split; interval with (i_prec 120)" % (h, B, L)
        else:
            tac = "g_pos %d %d%%Z %d%%Z; split; interval with (i_prec 120)" % (h, B, L)
    else:
        expr = "F %d %d %d" % (y, x, h)
        tac = "unfold F; split; interval with (i_prec 120)"
    return ('Goal True. tryif assert ((%d) <= %s < %d) by (%s) then idtac "OK %s" else idtac "FAIL %s". exact I. Qed.\n'
            % (lo, expr, hi, tac, cid, cid))


def main():
    cases_file, work = os.path.abspath(sys.argv[1]), os.path.abspath(sys.argv[2])
    jobs = int(sys.argv[3]) if len(sys.argv) > 3 else 16
    root = os.path.dirname(os.path.abspath(__file__))
    cases = []
    for line in open(cases_file):
        m = re.match(r"\(decaycase (\S+) (\d) (\d+) (-?\d+) (\d+) (\d+) (\d+) (\d+) (\d+)\)", line)
        if m:
            cases.append((m.group(1), m.group(2) == "1") + tuple(int(m.group(i)) for i in range(3, 10)))
    per = 25
    base = os.path.basename(cases_file).replace(".cases", "")
    shards = [cases[i:i + per] for i in range(0, len(cases), per)]

    def run(k):
        name = "dcq_%s_%d" % (re.sub(r"\W", "_", base), k)
        path = os.path.join(work, name + ".v")
        with open(path, "w") as f:
            f.write(HEAD)
            for c in shards[k]:
                f.write(goal(c))
        try:
            p = subprocess.run(["coqc", "-Q", os.path.join(root, "coq"), "RV", path], stdout=subprocess.PIPE,
                               stderr=subprocess.STDOUT, text=True, timeout=1500, cwd=work)
            out = p.stdout
        except subprocess.TimeoutExpired:
            out = "TIMEOUT"
        res = {}
        for line in out.splitlines():
            m = re.match(r"(OK|FAIL) (\S+)", line)
            if m:
                res[m.group(2)] = m.group(1)
        lines = []
        for c in shards[k]:
            r = res.get(c[0])
            if r == "OK":
                lines.append("OK %s 1" % c[0])
            elif r == "FAIL":
                lines.append("MISMATCH %s 0 decay: interval cannot place Go's value %d within slack %d of the real model at yielding=%s y=%d x=%d h=%d B=%d L=%d"
                             % (c[0], c[7], c[8], c[1], c[2], c[3], c[4], c[5], c[6]))
            else:
                lines.append("MISMATCH %s 0 decay: no verdict from coqc (%s)" % (c[0], out.strip().splitlines()[-1][:200] if out.strip() else "no output"))
        for ext in (".vo", ".vok", ".vos", ".glob"):
            try:
                os.unlink(os.path.join(work, name + ext))
            except OSError:
                pass
        return lines

    with ThreadPoolExecutor(max_workers=jobs) as ex:
        for lines in ex.map(run, range(len(shards))):
            for l in lines:
                print(l)


if __name__ == "__main__":
    main()
